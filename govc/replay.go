package main

// Replay of solver counterexamples on the real code (DESIGN 2.12). The model's entry
// state is turned into an in-package Go test injected with `go test -overlay`; the
// observed outputs are then substituted into the violated obligation, which must remain
// satisfiable for the violation to count as confirmed.

import (
	"encoding/json"
	"fmt"
	"go/types"
	"math/big"
	"os"
	"os/exec"
	"path/filepath"
	"regexp"
	"strings"
	"time"

	"golang.org/x/tools/go/ssa"
)

// ReplayInfo is recorded by verifyFunc for functions whose parameters and results are
// plain scalars.
type ReplayInfo struct {
	Fn          *ssa.Function
	ParamTerms  [][]string // per parameter: leaf terms
	ResultTerms [][]string
	Simple      bool
}

// parseGetValue parses "((t1 v1) (t2 v2) ...)" into values in order.
func parseGetValue(s string) []string {
	s = strings.TrimSpace(s)
	toks := tokenizeSexpr(s)
	// toks is a flat token list; parse into tree
	pos := 0
	var parse func() any
	parse = func() any {
		if pos >= len(toks) {
			return nil
		}
		t := toks[pos]
		pos++
		if t == "(" {
			var l []any
			for pos < len(toks) && toks[pos] != ")" {
				l = append(l, parse())
			}
			pos++
			return l
		}
		return t
	}
	tree, _ := parse().([]any)
	var out []string
	for _, p := range tree {
		pair, ok := p.([]any)
		if !ok || len(pair) != 2 {
			continue
		}
		out = append(out, sexprString(pair[1]))
	}
	return out
}

func sexprString(x any) string {
	switch v := x.(type) {
	case string:
		return v
	case []any:
		var parts []string
		for _, y := range v {
			parts = append(parts, sexprString(y))
		}
		return "(" + strings.Join(parts, " ") + ")"
	}
	return ""
}

func tokenizeSexpr(s string) []string {
	var out []string
	i := 0
	for i < len(s) {
		c := s[i]
		switch {
		case c == '(' || c == ')':
			out = append(out, string(c))
			i++
		case c == ' ' || c == '\n' || c == '\t' || c == '\r':
			i++
		case c == '|':
			j := strings.IndexByte(s[i+1:], '|')
			if j < 0 {
				j = len(s) - i - 2
			}
			out = append(out, s[i:i+j+2])
			i += j + 2
		default:
			j := i
			for j < len(s) && !strings.ContainsRune("() \n\t\r", rune(s[j])) {
				j++
			}
			out = append(out, s[i:j])
			i = j
		}
	}
	return out
}

// modelInt converts an SMT value (numeral, (- n), #x.., #b..) to a big.Int; signed
// interpretation for bit-vectors if signed is set.
func modelInt(v string, signed bool) (*big.Int, bool) {
	v = strings.TrimSpace(v)
	if strings.HasPrefix(v, "(- ") {
		n, ok := new(big.Int).SetString(strings.TrimSuffix(v[3:], ")"), 10)
		if !ok {
			return nil, false
		}
		return n.Neg(n), true
	}
	if strings.HasPrefix(v, "#x") || strings.HasPrefix(v, "#b") {
		base, width := 16, 4*(len(v)-2)
		if v[1] == 'b' {
			base, width = 2, len(v)-2
		}
		n, ok := new(big.Int).SetString(v[2:], base)
		if !ok {
			return nil, false
		}
		if signed && n.Bit(width-1) == 1 {
			n.Sub(n, new(big.Int).Lsh(big.NewInt(1), uint(width)))
		}
		return n, true
	}
	n, ok := new(big.Int).SetString(v, 10)
	return n, ok
}

func goTypeExpr(t types.Type, pkg *types.Package, imports map[string]bool) string {
	return types.TypeString(t, func(p *types.Package) string {
		if p == pkg {
			return ""
		}
		imports[p.Path()] = true
		return p.Name()
	})
}

// replayObligation tries to confirm a failed obligation on the real code. It always
// writes a replay file and returns its path.
func replayObligation(w *World, verif, prop string, r *FuncResult, o *Obligation) (string, bool) {
	content := map[string]any{
		"property": prop, "obligation": o.Name, "function": r.Func, "verdict": o.Verdict, "solver": o.Solver,
		"solver_model": o.Model, "goal": o.Goal,
	}
	confirmed := false
	note := ""
	if o.Verdict == "sat" && r.Replay != nil && r.Replay.Simple && o.Model != "" {
		ok, detail, err := replaySimple(w, verif, prop, r, o)
		content["replay"] = detail
		if err != nil {
			note = "replay not possible: " + err.Error()
		} else if ok {
			confirmed = true
		} else {
			note = "the solver's input does not reproduce the violation on the real code"
		}
	} else if o.Verdict != "sat" {
		note = "the solver returned " + o.Verdict + " (no model): the obligation, which is discharged on the unchanged tree, is no longer proved"
	} else {
		note = "no generic replay for this function shape (heap-dependent inputs); the model is attached"
	}
	if note != "" {
		content["note"] = note
	}
	content["confirmed_on_real_code"] = confirmed
	// keep the stand-alone query for inspection
	qp := writeQuery(verif, prop, o)
	content["smt_query_file"] = qp
	return writeReplay(verif, prop, o.Name, content), confirmed
}

func writeQuery(verif, prop string, o *Obligation) string {
	dir := filepath.Join(verif, "replays", prop)
	os.MkdirAll(dir, 0o755)
	name := strings.NewReplacer("/", "_", ":", "_", "*", "", "(", "", ")", "", " ", "_", "#", "_", "@", "_", "$", "_").Replace(o.Name)
	p := filepath.Join(dir, name+".smt2")
	os.WriteFile(p, []byte(o.Query), 0o644)
	return p
}

var resultLineRe = regexp.MustCompile(`(?m)^GOVC-(RESULT|PANIC) (.*)$`)

func replaySimple(w *World, verif, prop string, r *FuncResult, o *Obligation) (bool, map[string]any, error) {
	ri := r.Replay
	fn := ri.Fn
	vals := parseGetValue(o.Model)
	n := 0
	for _, p := range ri.ParamTerms {
		n += len(p)
	}
	if len(vals) < n {
		return false, nil, fmt.Errorf("model has %d values, need %d", len(vals), n)
	}
	pkg := fn.Pkg.Pkg
	imports := map[string]bool{"fmt": true, "testing": true}
	var argExprs []string
	var inputs []string
	vi := 0
	var pins []string
	for i, p := range fn.Params {
		t := p.Type()
		te := goTypeExpr(t, pkg, imports)
		v := vals[vi]
		term := ri.ParamTerms[i][0]
		vi++
		b := basicOf(t)
		switch {
		case b != nil && b.Info()&types.IsBoolean != 0:
			argExprs = append(argExprs, fmt.Sprintf("%s(%s)", te, v))
			pins = append(pins, mkEq(term, v))
		case b != nil && b.Info()&types.IsInteger != 0:
			iv, ok := modelInt(v, !isUnsigned(t))
			if !ok {
				return false, nil, fmt.Errorf("cannot read model value %q", v)
			}
			argExprs = append(argExprs, fmt.Sprintf("%s(%s)", te, iv.String()))
			pins = append(pins, mkEq(term, v))
		default:
			return false, nil, fmt.Errorf("parameter %s of type %v is not a plain scalar", p.Name(), t)
		}
		inputs = append(inputs, fmt.Sprintf("%s=%s", p.Name(), argExprs[len(argExprs)-1]))
	}
	// the test
	call := fn.Name() + "(" + strings.Join(argExprs, ", ") + ")"
	nres := fn.Signature.Results().Len()
	var lhs []string
	for i := 0; i < nres; i++ {
		lhs = append(lhs, fmt.Sprintf("r%d", i))
	}
	var sb strings.Builder
	sb.WriteString("package " + pkg.Name() + "\n\nimport (\n")
	for imp := range imports {
		sb.WriteString(fmt.Sprintf("\t%q\n", imp))
	}
	sb.WriteString(")\n\nfunc TestGovcReplay(t *testing.T) {\n\tdefer func() {\n\t\tif r := recover(); r != nil {\n\t\t\tfmt.Printf(\"GOVC-PANIC %v\\n\", r)\n\t\t}\n\t}()\n")
	if nres > 0 {
		sb.WriteString("\t" + strings.Join(lhs, ", ") + " := " + call + "\n")
		var fmts, as []string
		for i := 0; i < nres; i++ {
			fmts = append(fmts, "%v")
			rt := fn.Signature.Results().At(i).Type()
			if isInteger(rt) && !isUnsigned(rt) {
				as = append(as, fmt.Sprintf("int64(r%d)", i))
			} else if isInteger(rt) {
				as = append(as, fmt.Sprintf("uint64(r%d)", i))
			} else {
				as = append(as, fmt.Sprintf("r%d", i))
			}
		}
		sb.WriteString("\tfmt.Printf(\"GOVC-RESULT " + strings.Join(fmts, " ") + "\\n\", " + strings.Join(as, ", ") + ")\n")
	} else {
		sb.WriteString("\t" + call + "\n\tfmt.Printf(\"GOVC-RESULT\\n\")\n")
	}
	sb.WriteString("}\n")
	dir := filepath.Join(verif, "replays", prop)
	os.MkdirAll(dir, 0o755)
	name := strings.NewReplacer("/", "_", ":", "_", "*", "", "(", "", ")", "", " ", "_", "#", "_", "@", "_", "$", "_").Replace(o.Name)
	testFile := filepath.Join(dir, name+"_replay_test.go")
	os.WriteFile(testFile, []byte(sb.String()), 0o644)
	pkgDir := w.pkgDir(pkg.Path())
	if pkgDir == "" {
		return false, nil, fmt.Errorf("package directory not found")
	}
	ov := map[string]any{"Replace": map[string]string{filepath.Join(pkgDir, "zz_govc_replay_test.go"): testFile}}
	ovb, _ := json.Marshal(ov)
	ovFile := filepath.Join(dir, name+"_overlay.json")
	os.WriteFile(ovFile, ovb, 0o644)
	cmd := exec.Command("go", "test", "-overlay", ovFile, "-vet=off", "-count=1", "-timeout", "60s", "-run", "^TestGovcReplay$", "-v", ".")
	cmd.Dir = pkgDir
	cmd.Env = append(os.Environ(), "GOFLAGS=-mod=mod", "GOPROXY=off")
	t0 := time.Now()
	out, _ := cmd.CombinedOutput()
	detail := map[string]any{"inputs": inputs, "test_file": testFile, "overlay": ovFile, "command": "cd " + pkgDir + " && go test -overlay " + ovFile + " -vet=off -count=1 -timeout 60s -run '^TestGovcReplay$' -v .",
		"time_s": time.Since(t0).Seconds()}
	m := resultLineRe.FindStringSubmatch(string(out))
	if m == nil {
		detail["output"] = string(out)
		return false, detail, fmt.Errorf("replay test produced no result line")
	}
	detail["observed"] = m[0]
	if o.Kind == "panic" {
		return m[1] == "PANIC", detail, nil
	}
	if m[1] == "PANIC" {
		// a postcondition was violated according to the solver but the real code panics on this input
		return true, detail, nil
	}
	// substitute observed outputs into the obligation: inputs pinned to the model, symbolic results pinned to the observed values
	obs := strings.Fields(m[2])
	k := 0
	for i := 0; i < nres; i++ {
		rt := fn.Signature.Results().At(i).Type()
		term := ri.ResultTerms[i][0]
		if k >= len(obs) {
			break
		}
		v := obs[k]
		k++
		switch {
		case isInteger(rt):
			iv, ok := new(big.Int).SetString(v, 10)
			if !ok {
				continue
			}
			if r.Item != nil && r.Item.Mode == "bv64fp" {
				pins = append(pins, mkEq(term, bv64Lit(iv)))
			} else {
				pins = append(pins, mkEq(term, mkBig(iv.String())))
			}
		case basicOf(rt) != nil && basicOf(rt).Info()&types.IsBoolean != 0:
			pins = append(pins, mkEq(term, v))
		}
	}
	// o.Query ends with (assert (and pc (not goal))) (check-sat)
	q := strings.TrimSuffix(strings.TrimSpace(o.Query), "(check-sat)")
	for _, p := range pins {
		q += "(assert " + p + ")\n"
	}
	q += "(check-sat)\n"
	res := raceSolvers(q, 30000, []int{0, 1})
	detail["pinned_check"] = res.Verdict.String()
	switch res.Verdict {
	case Sat:
		return true, detail, nil
	case Unsat:
		return false, detail, nil
	}
	return false, detail, fmt.Errorf("pinned check undecided")
}

func (w *World) pkgDir(path string) string {
	for _, p := range w.pkgs {
		if p.PkgPath == path && len(p.GoFiles) > 0 {
			return filepath.Dir(p.GoFiles[0])
		}
	}
	return ""
}
