package main

// Abstract model of byte-string builders, used for the signature cache (C11).
//
//   content(b)        id of the byte string held by slice b (builtin, see speceval.go)
//   sha256(c)         the [32]byte value sha256.Sum256 returns for the byte string c
//   abytes(a)         the byte string of a [N]byte value a (content of a[:])
//   bcat(s, c, n)     the byte string s followed by the n-byte string c
//   bstr(s)           the Go string with bytes s
//
// strings.Builder: the string built so far is kept in the builder's buf#arr leaf (0 = empty);
// Write(p) makes it bcat(old, content(p), len(p)); String() returns bstr of it. No axioms are
// stated about these functions: equal arguments give equal results, nothing else.

import (
	"fmt"
	"go/types"
	"strings"

	"golang.org/x/tools/go/ssa"
)

func (e *Env) declBytesFuncs() {
	if e.declared["bytesfuncs"] {
		return
	}
	e.declared["bytesfuncs"] = true
	e.sess.Cmd("(declare-fun |sha256!| (Int) Int)")
	e.sess.Cmd("(declare-fun |abytes!| (Int) Int)")
	e.sess.Cmd("(declare-fun |bcat!| (Int Int Int) Int)")
	e.sess.Cmd("(declare-fun |bstr!| (Int) Int)")
	// afrom(c, n, x): the [N]byte value x after copy(x[:], s) with content(s) = c, len(s) = n
	e.sess.Cmd("(declare-fun |afrom!| (Int Int Int) Int)")
	e.sess.Cmd("(assert (forall ((a Int) (x Int)) (! (= (|afrom!| (|abytes!| a) 32 x) a) :pattern ((|afrom!| (|abytes!| a) 32 x)))))")
	// copying nothing leaves the array as it was
	e.sess.Cmd("(assert (forall ((c Int) (x Int)) (! (= (|afrom!| c 0 x) x) :pattern ((|afrom!| c 0 x)))))")
}

// contentTerm is the content id of a byte slice in a state.
func (e *Env) contentTerm(st *State, b *Slice) string {
	et := b.Typ.Underlying().(*types.Slice).Elem()
	names, sorts, leaves := e.elemArrays(et)
	f := q("content!" + sanitize(leaves[0].Sort))
	if !e.declared[f] {
		e.declared[f] = true
		e.sess.Cmd("(declare-fun " + f + " ((Array Int " + leaves[0].Sort + ") Int Int) Int)")
		// content ids are non-negative and fit the Go int range spec variables of type int use
		e.sess.Cmd("(assert (forall ((a (Array Int " + leaves[0].Sort + ")) (o Int) (l Int)) (! (and (<= 0 (" + f + " a o l)) (< (" + f + " a o l) 4611686018427387904)) :pattern ((" + f + " a o l)))))")
		// the empty byte string has one id, whatever array and offset it is taken from
		e.sess.Cmd("(assert (forall ((a (Array Int " + leaves[0].Sort + ")) (o Int)) (! (= (" + f + " a o 0) 0) :pattern ((" + f + " a o 0)))))")
	}
	arr := e.heapGet(st, names[0], sorts[0])
	return sx(f, mkSelect(arr, b.Arr), b.Off, b.Len)
}

// contentTermAt is contentTerm for an explicit version of the element array.
func (e *Env) contentTermAt(st *State, b *Slice, arr string) string {
	et := b.Typ.Underlying().(*types.Slice).Elem()
	_, _, leaves := e.elemArrays(et)
	f := q("content!" + sanitize(leaves[0].Sort))
	e.contentTerm(st, b) // declares f
	return sx(f, mkSelect(arr, b.Arr), b.Off, b.Len)
}

// binary.LittleEndian.PutUint32/64(b, v) where b is a view of a [N]byte variable x cut at
// offset lo: x becomes aput(x, lo, width, v) (uninterpreted: the array x with the width-byte
// little-endian encoding of v written at lo). Writes through other slices are not modelled.
func (e *Env) declAput() {
	if !e.declared["aput"] {
		e.declared["aput"] = true
		e.sess.Cmd("(declare-fun |aput!| (Int Int Int Int) Int)")
	}
}

func extPutUint(width int) externFn {
	return func(e *Env, fr *Frame, fn *ssa.Function, args []Value, rt types.Type, st *State) Value {
		b, ok := args[len(args)-2].(*Slice)
		v, ok2 := args[len(args)-1].(*Sc)
		if !ok || !ok2 {
			unsupp("binary.PutUint: unexpected operands")
		}
		// index panic of the library function: len(b) >= width
		e.panicCheck(fr, "index", st, sx("<=", fmt.Sprint(width), b.Len))
		vo, isView := e.arrayViewAt[b.Arr]
		if !isView || fr.pure {
			unsupp("binary.PutUint%d into a slice that is not a view of a local byte array", 8*width)
		}
		e.declAput()
		e.trust("binary.LittleEndian.PutUintNN into a [N]byte variable: the variable becomes aput(old, offset, width, value) (uninterpreted)")
		if fl := e.flatten(e.load(st, vo.ptr)); len(fl) == 1 {
			t := sx("|aput!|", fl[0], b.Off, fmt.Sprint(width), v.T)
			if vo.n == width && b.Off == "0" {
				// the whole array is overwritten: le(width, v), whatever it held
				t = sx("|aput!|", "0", "0", fmt.Sprint(width), v.T)
			}
			nv := e.maybeNameForce(t, sInt, "arrv")
			e.store(st, vo.ptr, e.fromLeaves(vo.ptr.pointee(), []string{nv}))
			// views are snapshots of the variable: a view cut BEFORE this write (the operand
			// itself, e.g. `b := make([]byte, 8); PutUint64(b, v); return b`) would keep the old
			// contents. Every register of this frame that holds a whole view of the variable is
			// re-pointed to a fresh view of the new value.
			if vo.lo == "0" && b.Off == "0" {
				r2 := ""
				for k, rv := range fr.regs {
					sl, ok := rv.(*Slice)
					if !ok || sl.Arr != b.Arr || sl.Off != "0" || sl.Len != fmt.Sprint(vo.n) {
						continue
					}
					if r2 == "" {
						r2 = e.alloc(st)
						e.arrayViewAt[r2] = vo
						if e.arrayViews != nil {
							if p, ok := e.arrayViews[b.Arr]; ok {
								e.arrayViews[r2] = p
							}
						}
					}
					ns := *sl
					ns.Arr = r2
					fr.regs[k] = &ns
					e.declBytesFuncs()
					e.assume(mkImp(st.pc, mkEq(e.contentTerm(st, &ns), sx("|abytes!|", nv))))
				}
			}
		}
		return nil
	}
}

func builderChainPtr(p *Ptr) *Ptr {
	// field buf (index 1) of strings.Builder
	st := p.Root
	_ = st
	np := *p
	np.Path = append(append([]int{}, p.Path...), 1)
	return &np
}

func extBuilderWrite(e *Env, fr *Frame, fn *ssa.Function, args []Value, rt types.Type, st *State) Value {
	e.declBytesFuncs()
	b, ok := args[0].(*Ptr)
	p, ok2 := args[1].(*Slice)
	if !ok || !ok2 {
		return extNoop(e, fr, fn, args, rt, st)
	}
	e.trust("strings.Builder modelled abstractly: Write appends the written bytes (bcat), String returns the built string (bstr)")
	bp := builderChainPtr(b)
	cur := e.load(st, bp).(*Slice)
	nv := *cur
	nv.Arr = e.maybeName(sx("|bcat!|", cur.Arr, e.contentTerm(st, p), p.Len), sInt)
	e.store(st, bp, &nv)
	tup := rt.(*types.Tuple)
	return &Tuple{V: []Value{&Sc{T: p.Len, Sort: sInt, Typ: tup.At(0).Type()}, &Iface{T: "0", Typ: tup.At(1).Type()}}}
}

func extBuilderString(e *Env, fr *Frame, fn *ssa.Function, args []Value, rt types.Type, st *State) Value {
	e.declBytesFuncs()
	b, ok := args[0].(*Ptr)
	if !ok {
		return extNoop(e, fr, fn, args, rt, st)
	}
	cur := e.load(st, builderChainPtr(b)).(*Slice)
	return &Sc{T: sx("|bstr!|", cur.Arr), Sort: sInt, Typ: rt}
}

func extSha256Sum(e *Env, fr *Frame, fn *ssa.Function, args []Value, rt types.Type, st *State) Value {
	e.declBytesFuncs()
	p, ok := args[0].(*Slice)
	if !ok {
		return extNoop(e, fr, fn, args, rt, st)
	}
	e.trust("sha256.Sum256 modelled as an uninterpreted function of the message bytes")
	v := e.freshValue(rt, "sha")
	fl := e.flatten(v)
	if len(fl) == 1 {
		e.assume(mkEq(fl[0], sx("|sha256!|", e.contentTerm(st, p))))
	}
	return v
}

// ---- time.Time and timestamppb.Timestamp: the instant of a time.Time is tsecs/tnanos of the
// value (uninterpreted functions of its representation); timestamppb.New stores exactly these
// in the message, AsTime returns a time with exactly the stored instant (nil message: epoch).

func (e *Env) timeFn(name string, t Value) string {
	fl := e.flatten(t)
	f := "|" + name + "!|"
	if !e.declared[f] {
		e.declared[f] = true
		var ss []string
		for range fl {
			ss = append(ss, sInt)
		}
		e.sess.Cmd("(declare-fun " + f + " (" + strings.Join(ss, " ") + ") Int)")
	}
	return sx(f, fl...)
}

func structFieldIndex(t types.Type, name string) int {
	st := t.Underlying().(*types.Struct)
	for i := 0; i < st.NumFields(); i++ {
		if st.Field(i).Name() == name {
			return i
		}
	}
	return -1
}

func extTimestampNew(e *Env, fr *Frame, fn *ssa.Function, args []Value, rt types.Type, st *State) Value {
	e.trust("timestamppb.New / AsTime: the message holds exactly the instant (seconds, nanoseconds) of the time value")
	pt := rt.(*types.Pointer).Elem()
	v := e.zeroValue(pt).(*Struct)
	secs := &Sc{T: e.timeFn("tsecs", args[0]), Sort: sInt, Typ: types.Typ[types.Int64]}
	nanos := &Sc{T: e.timeFn("tnanos", args[0]), Sort: sInt, Typ: types.Typ[types.Int32]}
	e.assume(mkAnd(sx("<=", "(- 9223372036854775808)", secs.T), sx("<=", secs.T, "9223372036854775807"), sx("<=", "0", nanos.T), sx("<", nanos.T, "1000000000")))
	v.F[structFieldIndex(pt, "Seconds")] = secs
	v.F[structFieldIndex(pt, "Nanos")] = nanos
	return e.allocObj(st, pt, v)
}

func extTimestampAsTime(e *Env, fr *Frame, fn *ssa.Function, args []Value, rt types.Type, st *State) Value {
	e.trust("timestamppb.New / AsTime: the message holds exactly the instant (seconds, nanoseconds) of the time value")
	p := args[0].(*Ptr)
	res := e.freshValue(rt, "time")
	pt := p.Typ.(*types.Pointer).Elem()
	secs, nanos := "0", "0"
	isNil := mkEq(p.Ref, "0")
	if cond := isNil; cond != tTrue {
		// read the fields of a non-nil message (the heap cell of a nil pointer is never read: ite)
		v := e.load(st, p).(*Struct)
		secs = mkIte(isNil, "0", e.flatten(v.F[structFieldIndex(pt, "Seconds")])[0])
		nanos = mkIte(isNil, "0", e.flatten(v.F[structFieldIndex(pt, "Nanos")])[0])
	}
	// (only for a normalised message: out-of-range nanoseconds are carried into the seconds)
	e.assume(mkImp(mkAnd(sx("<=", "0", nanos), sx("<", nanos, "1000000000")), mkAnd(mkEq(e.timeFn("tsecs", res), secs), mkEq(e.timeFn("tnanos", res), nanos))))
	return res
}
