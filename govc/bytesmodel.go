package main

// Abstract model of byte-string builders, used for the signature cache (C11).
//
//   content(b)        id of the byte string held by slice b (builtin, see speceval.go)
//   sha256(c)         the [32]byte value sha256.Sum256 returns for the byte string c
//   abytes(a)         the byte string of a [N]byte value a (content of a[:])
//   bcat(s, c, n)     the byte string s followed by the n-byte string c
//   bstr(s)           the Go string with bytes s
//
// strings.Builder: the string built so far is kept in the builder's buf#arr leaf (0 = empty);
// Write(p) makes it bcat(old, content(p), len(p)); String() returns bstr of it. No axioms are
// stated about these functions: equal arguments give equal results, nothing else.

import (
	"go/types"

	"golang.org/x/tools/go/ssa"
)

func (e *Env) declBytesFuncs() {
	if e.declared["bytesfuncs"] {
		return
	}
	e.declared["bytesfuncs"] = true
	e.sess.Cmd("(declare-fun |sha256!| (Int) Int)")
	e.sess.Cmd("(declare-fun |abytes!| (Int) Int)")
	e.sess.Cmd("(declare-fun |bcat!| (Int Int Int) Int)")
	e.sess.Cmd("(declare-fun |bstr!| (Int) Int)")
}

// contentTerm is the content id of a byte slice in a state.
func (e *Env) contentTerm(st *State, b *Slice) string {
	et := b.Typ.Underlying().(*types.Slice).Elem()
	names, sorts, leaves := e.elemArrays(et)
	f := q("content!" + sanitize(leaves[0].Sort))
	if !e.declared[f] {
		e.declared[f] = true
		e.sess.Cmd("(declare-fun " + f + " ((Array Int " + leaves[0].Sort + ") Int Int) Int)")
		// content ids are non-negative and fit the Go int range spec variables of type int use
		e.sess.Cmd("(assert (forall ((a (Array Int " + leaves[0].Sort + ")) (o Int) (l Int)) (! (and (<= 0 (" + f + " a o l)) (< (" + f + " a o l) 4611686018427387904)) :pattern ((" + f + " a o l)))))")
	}
	arr := e.heapGet(st, names[0], sorts[0])
	return sx(f, mkSelect(arr, b.Arr), b.Off, b.Len)
}

func builderChainPtr(p *Ptr) *Ptr {
	// field buf (index 1) of strings.Builder
	st := p.Root
	_ = st
	np := *p
	np.Path = append(append([]int{}, p.Path...), 1)
	return &np
}

func extBuilderWrite(e *Env, fr *Frame, fn *ssa.Function, args []Value, rt types.Type, st *State) Value {
	e.declBytesFuncs()
	b, ok := args[0].(*Ptr)
	p, ok2 := args[1].(*Slice)
	if !ok || !ok2 {
		return extNoop(e, fr, fn, args, rt, st)
	}
	e.trust("strings.Builder modelled abstractly: Write appends the written bytes (bcat), String returns the built string (bstr)")
	bp := builderChainPtr(b)
	cur := e.load(st, bp).(*Slice)
	nv := *cur
	nv.Arr = e.maybeName(sx("|bcat!|", cur.Arr, e.contentTerm(st, p), p.Len), sInt)
	e.store(st, bp, &nv)
	tup := rt.(*types.Tuple)
	return &Tuple{V: []Value{&Sc{T: p.Len, Sort: sInt, Typ: tup.At(0).Type()}, &Iface{T: "0", Typ: tup.At(1).Type()}}}
}

func extBuilderString(e *Env, fr *Frame, fn *ssa.Function, args []Value, rt types.Type, st *State) Value {
	e.declBytesFuncs()
	b, ok := args[0].(*Ptr)
	if !ok {
		return extNoop(e, fr, fn, args, rt, st)
	}
	cur := e.load(st, builderChainPtr(b)).(*Slice)
	return &Sc{T: sx("|bstr!|", cur.Arr), Sort: sInt, Typ: rt}
}

func extSha256Sum(e *Env, fr *Frame, fn *ssa.Function, args []Value, rt types.Type, st *State) Value {
	e.declBytesFuncs()
	p, ok := args[0].(*Slice)
	if !ok {
		return extNoop(e, fr, fn, args, rt, st)
	}
	e.trust("sha256.Sum256 modelled as an uninterpreted function of the message bytes")
	v := e.freshValue(rt, "sha")
	fl := e.flatten(v)
	if len(fl) == 1 {
		e.assume(mkEq(fl[0], sx("|sha256!|", e.contentTerm(st, p))))
	}
	return v
}
