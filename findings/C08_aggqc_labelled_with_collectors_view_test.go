package synchronizer

import (
	"testing"

	"github.com/relab/hotstuff"
	"github.com/relab/hotstuff/internal/testutil"
	"github.com/relab/hotstuff/security/crypto"
)

// Witness (C08: "the resulting certificate, and with aggregate QCs enabled the aggregate
// certificate and its high QC, verifies at every honest replica"). A replica that is still in
// view 1 collects a quorum of correctly signed timeouts for view 3 (it is behind). The
// aggregate timeout rule built the timeout certificate for the timed-out view 3 but labelled
// the aggregate QC with the collector's own view 1; every signer signed its timeout message
// for view 3, so no replica (not even the collector) can verify the aggregate QC it sends.
// In-package test of package synchronizer (run with -overlay).
func TestGovcFindingAggQCLabelledWithCollectorsView(t *testing.T) {
	set := testutil.NewEssentialsSet(t, 4, crypto.NameECDSA)
	signers := set.Signers()
	rule := newAggregate(set[0].RuntimeCfg(), signers[0])
	timeouts := testutil.CreateTimeouts(t, 3, signers) // four timeouts for view 3
	si, err := rule.RemoteTimeoutRule(1, 3, timeouts)  // the collector is still in view 1
	if err != nil {
		t.Fatalf("RemoteTimeoutRule: %v", err)
	}
	tc, ok := si.TC()
	if !ok || tc.View() != 3 {
		t.Fatalf("timeout certificate missing or for the wrong view: %v %v", ok, tc)
	}
	agg, ok := si.AggQC()
	if !ok {
		t.Fatal("no aggregate QC")
	}
	for i, s := range signers {
		if _, err := s.VerifyAggregateQC(agg); err != nil {
			t.Errorf("replica %d rejects the aggregate QC (labelled view %d, timeouts were for view 3): %v", i+1, agg.View(), err)
		}
	}
	_ = hotstuff.View(0)
}
