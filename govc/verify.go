package main

// Top-level verification of one function or lemma against its contract.

import (
	"regexp"
	"os"
	"context"
	"fmt"
	"go/ast"
	"go/types"
	"sort"
	"strings"
	"time"

	"golang.org/x/tools/go/ssa"
)

type FuncResult struct {
	Func        string        `json:"func"`
	Property    string        `json:"property"`
	Kind        string        `json:"kind"` // func | lemma
	Obligations []*Obligation `json:"obligations"`
	Error       string        `json:"error,omitempty"`
	Trusted     []string      `json:"trusted"`
	Inlined     []string      `json:"inlined"`
	Contracts   []string      `json:"callee_contracts_used"`
	Time        float64       `json:"time_s"`
	Loops       []string      `json:"loops,omitempty"`
	Item        *Item         `json:"-"`
	Replay      *ReplayInfo   `json:"-"`
}

func (e *Env) loopInvariants(fr *Frame, key string) []*Clause {
	var out []*Clause
	if fr.item == nil {
		return nil
	}
	for _, c := range fr.item.Clauses {
		if c.Kind == "invariant" && c.Loop == key {
			out = append(out, c)
		}
	}
	return out
}

func (e *Env) noteLoop(fr *Frame, li *loopInfo, modified map[string]bool) {
	e.loopNotes = append(e.loopNotes, fmt.Sprintf("loop %s in %s: %d invariant clause(s); havocs %s", li.key, fr.fn.Name(), len(e.loopInvariants(fr, li.key)), strings.Join(sortedKeys(modified), ", ")))
}

// invVars builds the variable environment for invariants / use-at sites.
func (e *Env) invVars(fr *Frame) map[string]Value { return e.invVarsAt(fr, nil) }

// invVarsAt: the local names visible at block `at` of fr.fn (nil: no preference). When two
// locals share a name (shadowing in different scopes), the one whose definition point
// dominates `at` most closely wins.
func (e *Env) invVarsAt(fr *Frame, at *ssa.BasicBlock) map[string]Value {
	vars := map[string]Value{}
	best := map[string]*ssa.BasicBlock{}
	cells := map[*Frame]map[string]bool{}
	for f := fr; f != nil; f = f.parent {
		m := map[string]bool{}
		for _, b := range f.fn.Blocks {
			for _, ins := range b.Instrs {
				if al, ok := ins.(*ssa.Alloc); ok && al.Comment != "" && al.Comment != "complit" && al.Comment != "varargs" {
					m[al.Comment] = true
				}
			}
		}
		cells[f] = m
	}
	// outermost first so that inner frames shadow
	var chain []*Frame
	for f := fr; f != nil; f = f.parent {
		chain = append(chain, f)
	}
	for i := len(chain) - 1; i >= 0; i-- {
		f := chain[i]
		for _, p := range f.fn.Params {
			if v, ok := f.regs[p]; ok {
				vars[p.Name()] = v
				// parameters are mutable in Go: <name>0 always denotes the value passed in (a
				// loop that reassigns the parameter rebinds <name> to its header phi)
				vars[p.Name()+"0"] = v
			}
		}
		for _, fv := range f.fn.FreeVars {
			if v, ok := f.regs[fv]; ok {
				vars[fv.Name()] = v
			}
		}
		// local variables by their source names (go/ssa debug references), when the value
		// they denote has been computed; addressable locals denote their cell
		for _, b := range f.fn.Blocks {
			for _, ins := range b.Instrs {
				if al, ok := ins.(*ssa.Alloc); ok && al.Comment != "" && al.Comment != "complit" && al.Comment != "varargs" {
					// an addressable local: its name denotes the cell (use *name for the value)
					if v, ok := f.regs[al]; ok {
						if _, taken := vars[al.Comment]; !taken {
							vars[al.Comment] = v
						}
					}
					continue
				}
				d, ok := ins.(*ssa.DebugRef)
				if !ok {
					continue
				}
				id, ok := d.Expr.(*ast.Ident)
				if !ok {
					continue
				}
				ob, isVar := d.Object().(*types.Var)
				if !isVar || ob.IsField() {
					continue
				}
				if cells[f][id.Name] {
					// an addressable local: its name denotes the cell (bound above), never one of
					// the values loaded from or stored to it at some program point
					continue
				}
				if v, ok := f.regs[d.X]; ok {
					_, taken := vars[id.Name]
					if f == fr && at != nil && b.Dominates(at) {
						// prefer the definition that dominates `at` most closely
						if pb, had := best[id.Name]; !taken || !had || pb.Dominates(b) {
							if _, isParam := paramNames(f.fn)[id.Name]; !isParam || had {
								vars[id.Name] = v
								best[id.Name] = b
							}
						}
						continue
					}
					if !taken {
						vars[id.Name] = v
					}
				}
			}
		}
	}
	// phis: qualified by loop key and, for the most recently bound, unqualified
	keys := make([]string, 0, len(fr.loopPhis))
	for k := range fr.loopPhis {
		keys = append(keys, k)
	}
	sort.Strings(keys)
	for _, k := range keys {
		for n, v := range fr.loopPhis[k] {
			vars[n+"@"+k] = v
			vars[n] = v
		}
	}
	e.applyAliases(vars)
	return vars
}

// applyAliases binds contract names of renamed locals (see verifyItem) to their new names.
func (e *Env) applyAliases(vars map[string]Value) {
	for from, to := range e.aliases {
		if strings.HasPrefix(to, "#p") {
			if k := atoi(to[2:]); k < len(e.paramVals) {
				vars[from] = e.paramVals[k]
			}
			continue
		}
		if strings.HasPrefix(to, "#r") {
			if k := atoi(to[2:]); k < len(e.resultVals) {
				vars[from] = e.resultVals[k]
			}
			continue
		}
		// "name-1" / "name+1": an integer local shifted by one (a range loop's hidden index is
		// one less than the counter of the equivalent counting loop)
		off := ""
		if strings.HasSuffix(to, "-1") || strings.HasSuffix(to, "+1") {
			off, to = to[len(to)-2:], to[:len(to)-2]
		}
		if v, ok := vars[to]; ok {
			if off != "" {
				sc, isSc := v.(*Sc)
				if !isSc || sc.Sort != sInt {
					continue
				}
				d := "1"
				if off == "-1" {
					d = "(- 1)"
				}
				v = &Sc{T: sx("+", sc.T, d), Sort: sInt, Typ: sc.Typ}
			}
			vars[from] = v
		}
		if off != "" {
			continue
		}
		for k, v := range vars {
			if strings.HasPrefix(k, to+"@") {
				vars[from+k[len(to):]] = v
			}
		}
	}
}

func paramNames(fn *ssa.Function) map[string]bool {
	m := map[string]bool{}
	for _, p := range fn.Params {
		m[p.Name()] = true
	}
	return m
}

func (e *Env) evalInv(fr *Frame, c *Clause, st *State) string {
	var at *ssa.BasicBlock
	for h, li := range findLoops(fr.fn, fr.loopPrefix) {
		if li.key == c.Loop {
			at = h
		}
	}
	vars := e.invVarsAt(fr, at)
	// the loop's own phis take precedence for unqualified names
	if m, ok := fr.loopPhis[c.Loop]; ok {
		for n, v := range m {
			vars[n] = v
		}
		e.applyAliases(vars)
	}
	top := fr
	for top.parent != nil {
		top = top.parent
	}
	ctx := &SpecCtx{e: e, st: st, old: top.entrySt, vars: vars, pkg: e.w.typesPkg(fr.item.Pkg)}
	return ctx.boolTerm(c.Expr)
}

// useAt instantiates lemmas requested at a program point.
func (e *Env) useAt(fr *Frame, where string, st *State) {
	if fr.item == nil || e.quantDepth > 0 {
		return
	}
	for _, u := range fr.item.UseAt {
		if u.Where != where {
			continue
		}
		top := fr
		for top.parent != nil {
			top = top.parent
		}
		vars := e.invVars(fr)
		if strings.HasPrefix(where, "return") {
			for k, v := range top.specVars {
				vars[k] = v
			}
		}
		ctx := &SpecCtx{e: e, st: st, old: top.entrySt, vars: vars, pkg: e.w.typesPkg(fr.item.Pkg)}
		e.applyLemma(ctx, u.Name, u.Args, st.pc, "use@"+strings.ReplaceAll(where, " ", "-"))
	}
}

func (e *Env) findLemma(pkg *types.Package, name string) *Item {
	if it := e.w.lemmas[pkg.Path()+"::"+name]; it != nil {
		return it
	}
	for k, it := range e.w.lemmas {
		if strings.HasSuffix(k, "::"+name) {
			return it
		}
	}
	return nil
}

// applyLemma checks a lemma's preconditions at the given arguments and assumes its
// postconditions (the lemma itself is verified separately).
func (e *Env) applyLemma(ctx *SpecCtx, name string, argx []*SExpr, pc, tag string) {
	lem := e.findLemma(ctx.pkg, name)
	if lem == nil {
		specFail("unknown lemma %s", name)
	}
	lpkg := e.w.typesPkg(lem.Pkg)
	vars := map[string]Value{}
	for i, p := range lem.Params {
		t := e.w.resolveType(lpkg, p.TypeStr)
		vars[p.Name] = ctx.coerce(ctx.eval(argx[i]), t)
	}
	lctx := &SpecCtx{e: e, st: ctx.st, old: ctx.old, vars: vars, pkg: lpkg}
	k := e.nextOrdinalIfReal("lemma-pre@" + name)
	for i, c := range lem.Clauses {
		if c.Kind == "requires" {
			t := lctx.boolTerm(c.Expr)
			e.oblige("lemma-pre", fmt.Sprintf("%s#%d:%d:%s", name, k, i, tag), pc, t)
		}
	}
	for _, c := range lem.Clauses {
		if c.Kind == "ensures" {
			e.assume(mkImp(pc, lctx.boolTerm(c.Expr)))
		}
	}
	if e.dry == 0 {
		e.usedLemmas[lem.Pkg+"."+lem.Name] = true
	}
}

// assumeLemmaQuantified assumes a lemma as a universally quantified fact (over its
// parameters and over the heap arrays it reads).
func (e *Env) assumeLemmaQuantified(pkg *types.Package, name string) {
	lem := e.findLemma(pkg, name)
	if lem == nil {
		specFail("unknown lemma %s", name)
	}
	lpkg := e.w.typesPkg(lem.Pkg)
	rd := &recDef{heapSort: map[string]string{}}
	sym := &State{pc: tTrue, heap: map[string]string{}, next: "next!sym"}
	e.symHeaps = append(e.symHeaps, &symHeapCollector{rd: rd})
	vars := map[string]Value{}
	var decls, guards []string
	for _, p := range lem.Params {
		t := e.w.resolveType(lpkg, p.TypeStr)
		ls := e.leavesOf(t)
		ts := make([]string, len(ls))
		for j, l := range ls {
			ts[j] = q("$" + p.Name + sanitize(l.Path))
			decls = append(decls, "("+ts[j]+" "+l.Sort+")")
			if r := e.rangeFact(ts[j], l); r != tTrue {
				guards = append(guards, r)
			}
		}
		vars[p.Name] = e.fromLeaves(t, ts)
	}
	e.quantDepth++
	ctx := &SpecCtx{e: e, st: sym, vars: vars, pkg: lpkg}
	var req, ens []string
	for _, c := range lem.Clauses {
		switch c.Kind {
		case "requires":
			req = append(req, ctx.boolTerm(c.Expr))
		case "ensures":
			ens = append(ens, ctx.boolTerm(c.Expr))
		}
	}
	var pats []string
	for _, tr := range lem.Triggers {
		var ps []string
		for _, t := range tr {
			ps = append(ps, e.flatten(ctx.eval(t))...)
		}
		var pp []string
		for _, p := range ps {
			for _, q := range patternTerms(stripBoundItes(simplifySelStore(p))) {
				pp = append(pp, e.hoistItes(q))
			}
		}
		if len(pp) > 0 {
			pats = append(pats, ":pattern ("+strings.Join(pp, " ")+")")
		}
	}
	e.quantDepth--
	e.symHeaps = e.symHeaps[:len(e.symHeaps)-1]
	sort.Strings(rd.heapNames)
	paramDecls := append([]string(nil), decls...)
	for _, hn := range rd.heapNames {
		decls = append(decls, "("+q("h$"+hn)+" "+rd.heapSort[hn]+")")
	}
	body := mkImp(mkAnd(append(guards, req...)...), mkAnd(ens...))
	if len(pats) > 0 {
		body = "(! " + body + " " + strings.Join(pats, " ") + ")"
	}
	e.assume("(forall (" + strings.Join(decls, " ") + ") " + body + ")")
	// the same lemma specialised to the heap at function entry (no quantification over heap
	// arrays: patterns with only scalar variables are matched far more reliably); an instance
	// of the general statement
	if len(rd.heapNames) > 0 && len(paramDecls) > 0 {
		entry := &State{pc: tTrue, heap: map[string]string{}}
		var repl []string
		for _, hn := range rd.heapNames {
			repl = append(repl, q("h$"+hn), e.heapGet(entry, hn, rd.heapSort[hn]))
		}
		e.assume("(forall (" + strings.Join(paramDecls, " ") + ") " + strings.NewReplacer(repl...).Replace(body) + ")")
	}
	e.usedLemmas[lem.Pkg+"."+lem.Name] = true
}

// verifyItem verifies one contract item. If a loop invariant or proof hint names a local
// variable that no longer exists (a renamed local), the names it may stand for are searched:
// invariants and `ghost ... assert` hints are proof artefacts, so ANY binding of such a name to a
// local of the function under which every obligation discharges is a valid proof. Names that
// occur in the specification proper (requires / ensures / modifies / emitted records) are never
// rebound.
func (w *World) verifyItem(it *Item, timeoutMs int) *FuncResult {
	// parameters / named results renamed since the contract was written keep their position
	base := map[string]string{}
	var note []string
	if it.Kind == "func" {
		if fn := w.findFunc(it.Pkg, it.Name); fn != nil {
			if rec := w.recordedParams[it.Pkg+"::"+it.Name]; rec != nil && len(rec["params"]) == len(fn.Params) && len(rec["results"]) == fn.Signature.Results().Len() {
				cur := map[string]bool{}
				for _, p := range fn.Params {
					cur[p.Name()] = true
				}
				rs := fn.Signature.Results()
				for i := 0; i < rs.Len(); i++ {
					cur[rs.At(i).Name()] = true
				}
				for k, n := range rec["params"] {
					if n != "" && n != "_" && !cur[n] && itemMentions(it, n) {
						base[n] = fmt.Sprintf("#p%d", k)
						note = append(note, n+" -> parameter "+fmt.Sprint(k))
					}
				}
				for k, n := range rec["results"] {
					if n != "" && n != "_" && !cur[n] && itemMentions(it, n) {
						if _, dup := base[n]; !dup {
							base[n] = fmt.Sprintf("#r%d", k)
							note = append(note, n+" -> result "+fmt.Sprint(k))
						}
					}
				}
			}
		}
	}
	var al map[string]string
	if len(base) > 0 {
		al = base
	}
	res := w.verifyItemOnce(it, timeoutMs, al)
	if len(note) > 0 {
		sort.Strings(note)
		res.Loops = append(res.Loops, "contract names bound by position to renamed parameters / results: "+strings.Join(note, ", "))
	}
	if it.Kind != "func" || res.Error == "" {
		return res
	}
	if r := w.rebindSearch(it, timeoutMs, base, res.Error, 0); r != nil {
		return r
	}
	return res
}

var unknownIdentRe = regexp.MustCompile(`unknown identifier "([A-Za-z_][A-Za-z_0-9]*)"`)

func (w *World) rebindSearch(it *Item, timeoutMs int, aliases map[string]string, errText string, depth int) *FuncResult {
	m := unknownIdentRe.FindStringSubmatch(errText)
	if m == nil || depth >= 3 {
		return nil
	}
	x := m[1]
	fn := w.findFunc(it.Pkg, it.Name)
	if fn == nil {
		return nil
	}
	if !hintOnlyName(it, x) {
		// a name of the specification itself: a renamed parameter or named result. It is bound
		// by POSITION, using the names recorded when the contract was written
		// (contract-params.json); never by search, which could make the contract follow a change
		// that swaps the roles of two parameters.
		rec := w.recordedParams[it.Pkg+"::"+it.Name]
		if rec == nil || len(rec["params"]) != len(fn.Params) || len(rec["results"]) != fn.Signature.Results().Len() {
			return nil
		}
		target := ""
		for k, n := range rec["params"] {
			if n == x {
				target = fmt.Sprintf("#p%d", k)
			}
		}
		for k, n := range rec["results"] {
			if n == x && target == "" {
				target = fmt.Sprintf("#r%d", k)
			}
		}
		if target == "" {
			return nil
		}
		al := map[string]string{x: target}
		for k, v := range aliases {
			al[k] = v
		}
		r := w.verifyItemOnce(it, timeoutMs, al)
		if r.Error != "" {
			if m2 := unknownIdentRe.FindStringSubmatch(r.Error); m2 != nil && m2[1] != x {
				return w.rebindSearch(it, timeoutMs, al, r.Error, depth+1)
			}
			return nil
		}
		r.Loops = append(r.Loops, "contract name "+x+" bound by position to the renamed parameter / result "+target)
		return r
	}
	used := map[string]bool{}
	for _, t := range aliases {
		used[strings.TrimSuffix(strings.TrimSuffix(t, "-1"), "+1")] = true
	}
	tries := 0
	var cands []string
	for _, c := range localNames(fn) {
		if !used[c] && !itemMentions(it, c) {
			cands = append(cands, c)
		}
	}
	// plain bindings first, then bindings shifted by one
	n0 := len(cands)
	for i := 0; i < n0; i++ {
		cands = append(cands, cands[i]+"-1", cands[i]+"+1")
	}
	for _, cand := range cands {
		if tries >= 30 {
			continue
		}
		tries++
		al := map[string]string{x: cand}
		for k, v := range aliases {
			al[k] = v
		}
		r := w.verifyItemOnce(it, timeoutMs, al)
		if os.Getenv("GOVC_REBIND_DEBUG") != "" {
			bad := ""
			for _, o := range r.Obligations {
				if !o.OK {
					bad += " " + o.Name[strings.LastIndex(o.Name, ")")+1:]
				}
			}
			fmt.Fprintf(os.Stderr, "rebind %s: %v -> error=%q failing=%s\n", it.Name, al, r.Error, bad)
		}
		if r.Error == "" {
			ok := true
			for _, o := range r.Obligations {
				if !o.OK && !w.knownObligations[o.Name] {
					ok = false
				}
			}
			if ok {
				var parts []string
				for k, v := range al {
					parts = append(parts, k+" -> "+v)
				}
				sort.Strings(parts)
				r.Loops = append(r.Loops, "contract names bound to renamed locals (proof hints only): "+strings.Join(parts, ", "))
				return r
			}
			continue
		}
		if m2 := unknownIdentRe.FindStringSubmatch(r.Error); m2 != nil && m2[1] == x {
			continue // this candidate cannot stand for x (e.g. a shift of a non-integer)
		}
		if r2 := w.rebindSearch(it, timeoutMs, al, r.Error, depth+1); r2 != nil {
			return r2
		}
	}
	return nil
}

// localNames lists the source names of the locals of fn and of the function literals nested in it.
func localNames(fn *ssa.Function) []string {
	seen := map[string]bool{}
	var out []string
	var walk func(f *ssa.Function)
	walk = func(f *ssa.Function) {
		for _, b := range f.Blocks {
			for _, ins := range b.Instrs {
				name := ""
				switch x := ins.(type) {
				case *ssa.DebugRef:
					if id, ok := x.Expr.(*ast.Ident); ok {
						if ob, isVar := x.Object().(*types.Var); isVar && !ob.IsField() {
							name = id.Name
						}
					}
				case *ssa.Alloc:
					if x.Comment != "complit" && x.Comment != "varargs" {
						name = x.Comment
					}
				case *ssa.Phi:
					name = x.Comment
				}
				if name != "" && name != "_" && !seen[name] && !strings.ContainsAny(name, ". &|!<>=") {
					seen[name] = true
					out = append(out, name)
				}
			}
		}
		for _, a := range f.AnonFuncs {
			walk(a)
		}
	}
	walk(fn)
	sort.Strings(out)
	return out
}

func sexprMentions(x *SExpr, name string) bool {
	if x == nil {
		return false
	}
	if x.Op == "ident" && x.Name == name {
		return true
	}
	for _, b := range x.Bound {
		if b.Name == name {
			return false // a bound variable of this quantifier, not the program variable
		}
	}
	for _, a := range x.Args {
		if sexprMentions(a, name) {
			return true
		}
	}
	for _, tr := range x.Trig {
		for _, t := range tr {
			if sexprMentions(t, name) {
				return true
			}
		}
	}
	return false
}

// itemMentions: the contract uses this name somewhere (so it is not a candidate target).
func itemMentions(it *Item, name string) bool {
	for _, c := range it.Clauses {
		if sexprMentions(c.Expr, name) {
			return true
		}
		for _, e := range c.Exprs {
			if sexprMentions(e, name) {
				return true
			}
		}
	}
	for _, g := range it.GhostAt {
		if sexprMentions(g.Assume, name) {
			return true
		}
		if g.Emit != nil {
			for _, a := range g.Emit.Args {
				if sexprMentions(a, name) {
					return true
				}
			}
		}
	}
	for _, u := range it.UseAt {
		for _, a := range u.Args {
			if sexprMentions(a, name) {
				return true
			}
		}
	}
	return false
}

// hintOnlyName: the name occurs only in loop invariants, `use` hints and `ghost ... assert`
// hints, never in requires / ensures / modifies / decreases / emitted records / assumptions.
func hintOnlyName(it *Item, name string) bool {
	for _, c := range it.Clauses {
		if c.Kind == "invariant" {
			continue
		}
		if sexprMentions(c.Expr, name) {
			return false
		}
		for _, e := range c.Exprs {
			if sexprMentions(e, name) {
				return false
			}
		}
	}
	for _, g := range it.GhostAt {
		if g.Assume != nil && !g.Assert && sexprMentions(g.Assume, name) {
			return false
		}
		if g.Emit != nil {
			for _, a := range g.Emit.Args {
				if sexprMentions(a, name) {
					return false
				}
			}
		}
	}
	return true
}

func (w *World) verifyItemOnce(it *Item, timeoutMs int, aliases map[string]string) *FuncResult {
	t0 := time.Now()
	res := &FuncResult{Property: it.Property, Kind: it.Kind, Item: it}
	pkgShort := strings.TrimPrefix(it.Pkg, modPath+"/")
	if it.Pkg == modPath {
		pkgShort = "hotstuff"
	}
	res.Func = pkgShort + "." + it.Name
	e, err := newEnv(w, res.Func, timeoutMs)
	if err != nil {
		res.Error = err.Error()
		return res
	}
	defer e.sess.Close()
	e.prop = it.Property
	e.aliases = aliases
	e.usedContracts = map[string]bool{}
	e.usedLemmas = map[string]bool{}
	e.opaque = map[string]bool{}
	for _, n := range strings.Split(it.Opts["opaque"], ",") {
		if n = strings.TrimSpace(n); n != "" {
			e.opaque[n] = true
		}
	}
	switch it.Mode {
	case "bytebv":
		e.byteBV = true
	case "bv64fp":
		e.bvfp = true
	case "":
	default:
		res.Error = "unknown mode " + it.Mode
		return res
	}
	func() {
		defer func() {
			if r := recover(); r != nil {
				if u, ok := r.(unsupported); ok {
					res.Error = u.Error()
					return
				}
				if os.Getenv("GOVC_PANIC") != "" {
					panic(r)
				}
				res.Error = fmt.Sprintf("internal error of the verifier on this function: %v", r)
				return
			}
		}()
		if it.Kind == "census" {
			e.verifyCensus(it)
		} else if it.Kind == "lemma" {
			e.verifyLemma(it)
		} else if it.Kind == "pure" {
			e.verifyPureWF(it)
		} else {
			e.verifyFunc(it)
		}
	}()
	e.pending.Wait()
	// a loop may have several back edges, some of them infeasible (e.g. a constant-bound inner
	// loop that never exits early): the reachability check holds if any of them is reachable
	backOK := map[string]bool{}
	for _, o := range e.obs {
		if o.Kind == "cover" && strings.HasSuffix(o.Name, "-back") && o.Verdict != "unsat" {
			backOK[o.Name] = true
		}
	}
	for _, o := range e.obs {
		if o.Kind == "cover" && strings.HasSuffix(o.Name, "-back") && backOK[o.Name] {
			o.OK = true
			if o.Verdict == "unsat" {
				o.Verdict = "sat"
				o.Solver += "(another back edge of this loop is reachable)"
			}
		}
	}
	res.Obligations = e.obs
	res.Trusted = sortedKeys(e.trusted)
	res.Inlined = sortedKeys(e.inlined)
	res.Contracts = sortedKeys(e.usedContracts)
	for _, l := range sortedKeys(e.usedLemmas) {
		res.Contracts = append(res.Contracts, "lemma "+l)
	}
	res.Loops = e.loopNotes
	res.Replay = e.replay
	res.Time = time.Since(t0).Seconds()
	return res
}

func (e *Env) verifyFunc(it *Item) {
	w := e.w
	fn := w.findFunc(it.Pkg, it.Name)
	if fn == nil {
		unsupp("function %s not found in %s (renamed or deleted?)", it.Name, it.Pkg)
	}
	if len(fn.Blocks) == 0 {
		unsupp("function %s has no body", it.Name)
	}
	pkg := w.typesPkg(it.Pkg)
	st := &State{pc: tTrue, heap: map[string]string{}}
	next0 := e.fresh("next0", sInt)
	e.assume(sx("<", "0", next0))
	st.next = next0
	e.next0 = next0
	// parameters
	var args []Value
	vars := map[string]Value{}
	for i, p := range fn.Params {
		v := e.freshValue(p.Type(), "p_"+p.Name())
		for j, l := range e.leavesOf(p.Type()) {
			if l.Sort == sInt && (isRefType(l.Typ) || strings.HasSuffix(l.Path, "#arr")) {
				e.assume(sx("<", e.flatten(v)[j], next0))
			}
			if l.Sort == sInt && isIfaceType(l.Typ) {
				e.declAtEntry()
				e.assume(sx("atentry", e.flatten(v)[j]))
			}
		}
		if i == 0 && fn.Signature.Recv() != nil {
			if pv, ok := v.(*Ptr); ok {
				e.assume(sx("<", "0", pv.Ref))
				e.trust("method receivers are non-nil")
			}
		}
		args = append(args, v)
		vars[p.Name()] = v
		for j, t := range e.flatten(v) {
			e.modelTerms = append(e.modelTerms, t)
			e.modelNames = append(e.modelNames, p.Name()+e.leavesOf(p.Type())[j].Path)
		}
	}
	// free variables of a closure under contract: like parameters (a variable captured by
	// reference is a pointer to its cell, which exists at entry: write *x in the contract)
	var fvals []Value
	for _, fv := range fn.FreeVars {
		v := e.freshValue(fv.Type(), "fv_"+fv.Name())
		for j, l := range e.leavesOf(fv.Type()) {
			if l.Sort == sInt && (isRefType(l.Typ) || strings.HasSuffix(l.Path, "#arr")) {
				e.assume(sx("<", e.flatten(v)[j], next0))
			}
			if l.Sort == sInt && isIfaceType(l.Typ) {
				e.declAtEntry()
				e.assume(sx("atentry", e.flatten(v)[j]))
			}
		}
		fvals = append(fvals, v)
		vars[fv.Name()] = v
	}
	e.paramVals = args
	e.applyAliases(vars)
	entry := st.clone()
	ctx := &SpecCtx{e: e, st: entry, vars: vars, pkg: pkg}
	for _, c := range it.Clauses {
		if c.Kind == "requires" {
			e.assume(ctx.boolTerm(c.Expr))
		}
	}
	usedAx := map[string]bool{}
	for _, ax := range w.axioms {
		// axioms of the function's own package always; axioms of other packages when named
		// in a `uses` clause (by bare or package-qualified name)
		named := false
		for _, l := range it.Uses {
			if l == ax.Name || strings.HasSuffix(l, "."+ax.Name) {
				named = true
				usedAx[l] = true
			}
		}
		if ax.Pkg == it.Pkg || named {
			actx := &SpecCtx{e: e, st: entry, vars: map[string]Value{}, pkg: w.typesPkg(ax.Pkg)}
			e.assume(actx.boolTerm(ax.Body))
			e.trust("axiom " + ax.Pkg + "." + ax.Name)
		}
	}
	for _, l := range it.Uses {
		if usedAx[l] {
			continue
		}
		e.assumeLemmaQuantified(pkg, l)
	}
	e.cover("pre", tTrue)
	if it.Opts["noframe"] == "" {
		e.computeFrame(it, ctx)
	}
	fr := &Frame{fn: fn, item: it, entrySt: entry, specVars: vars, sname: shortName(fn)}
	fr.regs = map[ssa.Value]Value{}
	for i, p := range fn.Params {
		fr.regs[p] = args[i]
	}
	for i, fv := range fn.FreeVars {
		fr.regs[fv] = fvals[i]
	}
	e.cur = fr
	e.useAt(fr, "entry", st)
	results, out := e.execFunc(fr, args, st)
	if out == nil {
		e.cover("return", tFalse)
		return
	}
	e.cover("return", out.pc)
	// replay information for plain-scalar functions
	ri := &ReplayInfo{Fn: fn, Simple: fn.Signature.Recv() == nil && fn.Parent() == nil}
	for _, a := range args {
		if _, ok := a.(*Sc); !ok {
			ri.Simple = false
		}
		ri.ParamTerms = append(ri.ParamTerms, e.flatten(a))
	}
	for _, rv := range results {
		if _, ok := rv.(*Sc); !ok {
			ri.Simple = false
			ri.ResultTerms = append(ri.ResultTerms, nil)
			continue
		}
		ri.ResultTerms = append(ri.ResultTerms, e.flatten(rv))
	}
	e.replay = ri
	// postconditions: checked at every return site separately (no merged heap), unless the
	// contract asks for a case split
	hasCases := len(it.Cases) > 0
	type retSite struct {
		st   *State
		vals []Value
		tag  string
	}
	var sites []retSite
	if len(fr.rets) > 1 && !hasCases && it.Opts["merged-post"] == "" {
		for k, r := range fr.rets {
			sites = append(sites, retSite{r.st, r.vals, fmt.Sprintf("@ret%d", k)})
		}
	} else {
		sites = []retSite{{out, results, ""}}
	}
	var caseTerms []string
	if hasCases {
		cctx := &SpecCtx{e: e, st: entry, vars: vars, pkg: pkg}
		for _, c := range it.Cases {
			caseTerms = append(caseTerms, cctx.boolTerm(c))
		}
		e.oblige("cases-exhaustive", "", tTrue, mkOr(caseTerms...))
	}
	for _, site := range sites {
		pv := map[string]Value{}
		for k, v := range vars {
			pv[k] = v
		}
		bindResults(pv, fn, site.vals)
		e.resultVals = site.vals
		e.applyAliases(pv)
		fr.specVars = pv
		e.cur = fr
		e.useAt(fr, "return", site.st)
		if site.tag != "" {
			e.useAt(fr, "return "+strings.TrimPrefix(site.tag, "@ret"), site.st)
			// vacuity guard per return site: a path that the assumptions made along it (callee
			// post-conditions, frames) rule out would make its post-conditions hold trivially.
			// Sites listed in `opt dead-returns` are known to be unreachable under the contract.
			dead := false
			for _, d := range strings.Split(it.Opts["dead-returns"], ",") {
				if strings.TrimSpace(d) == strings.TrimPrefix(site.tag, "@ret") {
					dead = true
				}
			}
			if !dead {
				e.cover("return"+site.tag, site.st.pc)
			}
		}
		post := &SpecCtx{e: e, st: site.st, old: entry, vars: pv, pkg: pkg}
		for i, c := range it.Clauses {
			if c.Kind != "ensures" {
				continue
			}
			label := c.Label
			if label == "" {
				label = fmt.Sprint(i)
			}
			// `opt trusted-posts a,b`: these post-conditions are assumptions about the function
			// (listed in the evidence); everything else about it is verified
			if tp := it.Opts["trusted-posts"]; tp != "" && c.Label != "" {
				skip := false
				for _, l := range strings.Split(tp, ",") {
					if strings.TrimSpace(l) == c.Label {
						skip = true
					}
				}
				if skip {
					e.trust("post-condition [" + c.Label + "] of " + funcQName(fn) + " is assumed, not verified (opt trusted-posts)")
					continue
				}
			}
			goal := post.boolTerm(c.Expr)
			if hasCases {
				e.obligeCases("post", label, site.st.pc, caseTerms, goal)
			} else {
				e.oblige("post", label+site.tag, site.st.pc, goal)
			}
		}
		if it.Opts["noframe"] == "" {
			fg := e.frameGoals(site.st)
			for _, n := range sortedKeys2(fg) {
				e.oblige("frame", sanitize(n)+site.tag, site.st.pc, fg[n])
			}
		}
	}
}

// computeFrame evaluates the modifies clauses in the entry state: for every heap array the
// set of references the function may write.
func (e *Env) computeFrame(it *Item, entryCtx *SpecCtx) {
	allowed := map[string][]string{} // heap name -> allowed refs
	allowAll := map[string]bool{}
	add := func(name, ref string) { allowed[name] = append(allowed[name], ref) }
	var visit func(x *SExpr)
	visit = func(x *SExpr) {
		switch x.Op {
		case "call":
			if x.Name == "trace" {
				return
			}
			specFail("modifies %s", x)
		case "paren":
			visit(x.Args[0])
		case "ident":
			if x.Name == "alloc" {
				return
			}
			specFail("modifies %s", x)
		case "sel":
			fp := entryCtx.locOf(x)
			if fp == nil {
				specFail("modifies %s: not a location", x)
			}
			for _, l := range e.leavesOf(fp.pointee()) {
				n, _ := e.locName(fp, l)
				add(n, fp.Ref)
			}
		case "unop":
			base := entryCtx.eval(x.Args[0])
			p, ok := base.(*Ptr)
			if !ok || x.Name != "*" {
				specFail("modifies %s", x)
			}
			for _, l := range e.leavesOf(p.pointee()) {
				n, _ := e.locName(p, l)
				add(n, p.Ref)
			}
		case "allelems", "index":
			base := entryCtx.eval(x.Args[0])
			switch b := base.(type) {
			case *Slice:
				et := b.Typ.Underlying().(*types.Slice).Elem()
				names, _, _ := e.elemArrays(et)
				for _, n := range names {
					add(n, b.Arr)
				}
			case *MapV:
				mt := b.Typ.Underlying().(*types.Map)
				dn, sn, _ := e.mapNames(mt)
				add(dn, b.Ref)
				add(sn, b.Ref)
				for _, l := range e.leavesOf(mt.Elem()) {
					add("M!"+typeKey(mt)+"!val"+l.Path, b.Ref)
				}
			default:
				specFail("modifies %s", x)
			}
		default:
			specFail("modifies %s", x)
		}
	}
	for _, c := range it.Clauses {
		if c.Kind == "modifies" {
			for _, x := range c.Exprs {
				visit(x)
			}
		}
	}
	if v := it.Opts["modifies-any"]; v != "" {
		for _, n := range strings.Fields(v) {
			allowAll[n] = true
		}
	}
	e.frameAllowed = allowed
	e.frameAllowAll = allowAll
	e.frameOn = true
	e.framePreserved = e.w.preservedTypes(it)
	e.traceDeclared = map[string]bool{}
	for _, em := range it.Emits {
		e.traceDeclared[em.Ch] = true
	}
	for _, c := range it.Clauses {
		if c.Kind == "modifies" {
			for _, x := range c.Exprs {
				if x.Op == "call" && x.Name == "trace" && len(x.Args) == 1 {
					e.traceDeclared[x.Args[0].String()] = true
				}
			}
		}
	}
}

// frameGoals: for every heap array that differs from its entry version, the formula
// "every location allocated before the call and not named by a modifies clause is unchanged".
func (e *Env) frameGoals(out *State) map[string]string {
	goals := map[string]string{}
	if !e.frameOn {
		return goals
	}
	if out.base != "" && out.base != "0" {
		// the function called unknown code: only the types its own contract promises to
		// preserve are checked; without such a clause the frame cannot hold
		if len(e.framePreserved) == 0 {
			goals["*unknown-code*"] = tFalse
			return goals
		}
		for _, t := range e.framePreserved {
			p := &Ptr{Kind: "obj", Root: t}
			for _, l := range e.leavesOf(t) {
				n, srt := e.locName(p, l)
				cur := e.heapGet(out, n, srt)
				init := q(n + "@0")
				if cur == init || e.frameAllowAll[n] {
					continue
				}
				r := "|$r|"
				var excl []string
				for _, a := range e.frameAllowed[n] {
					excl = append(excl, mkNot(mkEq(r, a)))
				}
				goals[n] = fmt.Sprintf("(forall ((%s Int)) (! (=> %s (= (select %s %s) (select %s %s))) :pattern ((select %s %s))))", r,
					mkAnd(append([]string{sx("<", r, e.next0)}, excl...)...), cur, r, init, r, cur, r)
			}
		}
		return goals
	}
	for n, t := range out.heap {
		init := q(n + "@0")
		if t == init || e.frameAllowAll[n] {
			continue
		}
		if strings.HasPrefix(n, "V!") {
			continue // ghost visited set of a map iteration
		}
		if strings.HasPrefix(n, "T!") {
			// ghost trace channel: may only change if the contract declares it
			ch := strings.SplitN(strings.TrimPrefix(n, "T!"), "!", 2)[0]
			if !e.traceDeclared[ch] {
				goals[n] = mkEq(t, init)
			}
			continue
		}
		r := "|$r|"
		var excl []string
		for _, a := range e.frameAllowed[n] {
			excl = append(excl, mkNot(mkEq(r, a)))
		}
		arr := t
		goals[n] = fmt.Sprintf("(forall ((%s Int)) (! (=> %s (= (select %s %s) (select %s %s))) :pattern ((select %s %s))))", r,
			mkAnd(append([]string{sx("<", r, e.next0)}, excl...)...), arr, r, init, r, arr, r)
	}
	return goals
}

// obligeCases discharges one goal under each of the case assumptions, in parallel,
// as stand-alone solver runs.
func (e *Env) obligeCases(kind, label, pc string, caseTerms []string, goal string) {
	if e.dry > 0 {
		return
	}
	prefix := e.sess.Prefix()
	obs := make([]*Obligation, len(caseTerms))
	done := make(chan int, len(caseTerms))
	for k, ct := range caseTerms {
		ob := &Obligation{Name: fmt.Sprintf("%s:%s:%s:case%d", e.top, kind, label, k), Func: e.top, Kind: kind, Property: e.prop, Expect: "unsat", Goal: goal}
		ob.Query = prefix + "(assert " + mkAnd(pc, ct, mkNot(goal)) + ")\n(check-sat)\n"
		obs[k] = ob
		e.obs = append(e.obs, ob)
		go func(k int, ob *Obligation) {
			solverSlots <- struct{}{}
			script := ob.Query
			if len(e.modelTerms) > 0 {
				script += "(get-value (" + strings.Join(e.modelTerms, " ") + "))\n"
			}
			r := runSolver(context.Background(), solvers[0], script, e.timeoutMs)
			<-solverSlots
			if r.Verdict == Unknown {
				solverSlots <- struct{}{}
				r2 := raceSolvers(script, e.timeoutMs*3, []int{1, 2, 3})
				<-solverSlots
				r2.Time += r.Time
				r = r2
			}
			ob.Verdict = r.Verdict.String()
			ob.Solver = r.Solver
			ob.Time = r.Time
			ob.OK = ob.Verdict == ob.Expect
			if r.Verdict == Sat {
				ob.Model = r.Model
			}
			done <- k
		}(k, ob)
	}
	for range caseTerms {
		<-done
	}
}

var solverSlots = make(chan struct{}, 16)

func (e *Env) verifyLemma(it *Item) {
	w := e.w
	pkg := w.typesPkg(it.Pkg)
	st := &State{pc: tTrue, heap: map[string]string{}}
	next0 := e.fresh("next0", sInt)
	e.assume(sx("<", "0", next0))
	st.next = next0
	vars := map[string]Value{}
	for _, p := range it.Params {
		t := w.resolveType(pkg, p.TypeStr)
		vars[p.Name] = e.freshValue(t, "l_"+p.Name)
	}
	ctx := &SpecCtx{e: e, st: st, vars: vars, pkg: pkg}
	if it.Opts["twostate"] != "" {
		// old() refers to a second, arbitrary heap
		old := st
		cur := &State{pc: tTrue, heap: map[string]string{}, base: "1"}
		nx := e.fresh("next1", sInt)
		e.assume(sx("<=", next0, nx))
		cur.next = nx
		ctx = &SpecCtx{e: e, st: cur, old: old, vars: vars, pkg: pkg}
	}
	for _, c := range it.Clauses {
		if c.Kind == "requires" {
			e.assume(ctx.boolTerm(c.Expr))
		}
	}
	for _, l := range it.Uses {
		e.assumeLemmaQuantified(pkg, l)
	}
	e.cover("pre", tTrue)
	e.lemmaSteps(it, ctx, it.Steps, tTrue)
	for i, c := range it.Clauses {
		if c.Kind == "ensures" {
			label := c.Label
			if label == "" {
				label = fmt.Sprint(i)
			}
			e.oblige("lemma", label, tTrue, ctx.boolTerm(c.Expr))
		}
	}
}

func (e *Env) lemmaSteps(it *Item, ctx *SpecCtx, steps []*LemmaStep, pc string) {
	for _, s := range steps {
		switch s.Kind {
		case "assert":
			t := ctx.boolTerm(s.Expr)
			k := e.nextOrdinal("lemma-assert")
			e.oblige("lemma-assert", fmt.Sprint(k), pc, t)
			e.assume(mkImp(pc, t))
		case "use":
			if s.Name == it.Name {
				// induction hypothesis: the measure must decrease and stay non-negative
				if it.Decr == nil {
					specFail("lemma %s uses itself but has no decreases clause", it.Name)
				}
				lpkg := ctx.pkg
				vars := map[string]Value{}
				for i, p := range it.Params {
					vars[p.Name] = ctx.coerce(ctx.eval(s.Args[i]), e.w.resolveType(lpkg, p.TypeStr))
				}
				inner := &SpecCtx{e: e, st: ctx.st, old: ctx.old, vars: vars, pkg: lpkg}
				d1 := inner.intTerm(inner.eval(it.Decr))
				d0 := ctx.intTerm(ctx.eval(it.Decr))
				k := e.nextOrdinal("decreases")
				e.oblige("decreases", fmt.Sprint(k), pc, mkAnd(sx("<=", "0", d1), sx("<", d1, d0)))
			}
			e.applyLemma(ctx, s.Name, s.Args, pc, "proof")
		case "unfold":
			ctx.eval(s.Expr)
		case "if":
			c := ctx.boolTerm(s.Expr)
			e.lemmaSteps(it, ctx, s.Then, mkAnd(pc, c))
			e.lemmaSteps(it, ctx, s.Else, mkAnd(pc, mkNot(c)))
		}
	}
}

// verifyPureWF checks that a recursive spec function is well founded: at every recursive
// call in its body, under the conditions guarding that call, the measure is non-negative
// and strictly smaller. This makes the unfolding equations (assumed wherever the function
// is applied) consistent.
func (e *Env) verifyPureWF(it *Item) {
	pkg := e.w.typesPkg(it.Pkg)
	if it.Decr == nil {
		specFail("recursive spec function %s needs a decreases clause", it.Name)
	}
	var ptypes []types.Type
	for _, p := range it.Params {
		ptypes = append(ptypes, e.w.resolveType(pkg, p.TypeStr))
	}
	key := it.Pkg + "." + it.Name
	rd := &recDef{item: it, name: q("R!" + key), heapSort: map[string]string{}, paramTypes: ptypes}
	rd.resType = e.w.resolveType(pkg, it.Result)
	rd.resSort = e.leavesOf(rd.resType)[0].Sort
	e.recDefs[key] = rd
	e.defineRec(rd, pkg)
	for i, p := range rd.paramSyms {
		e.sess.Cmd("(declare-const " + p + " " + rd.paramSorts[i] + ")")
	}
	for _, hn := range rd.heapNames {
		e.sess.Cmd("(declare-const " + q("h$"+hn) + " " + rd.heapSort[hn] + ")")
		if lt := e.leafTypes[hn]; lt != nil && strings.HasPrefix(hn, "F!") {
			if r := e.typeRange("(select "+q("h$"+hn)+" |$r|)", lt); r != tTrue {
				e.sess.Cmd("(assert (forall ((|$r| Int)) " + r + "))")
			}
		}
	}
	i := 0
	for pi, pt := range ptypes {
		_ = pi
		for _, l := range e.leavesOf(pt) {
			if r := e.rangeFact(rd.paramSyms[i], l); r != tTrue {
				e.assume(r)
			}
			i++
		}
	}
	e.cover("pre", tTrue)
	if len(rd.calls) == 0 {
		specFail("%s is marked recursive but has no recursive call", it.Name)
	}
	for k, c := range rd.calls {
		var pairs []string
		for j, p := range rd.paramSyms {
			pairs = append(pairs, p, c.args[j])
		}
		d1 := strings.NewReplacer(pairs...).Replace(rd.decrTerm)
		e.oblige("wellfounded", fmt.Sprintf("call%d", k), c.guard, mkAnd(sx("<=", "0", d1), sx("<", d1, rd.decrTerm)))
	}
}

// verifyCensus: a program-wide frame check by scanning the SSA of every function of the
// module (test helper package internal/testutil excluded): the target function is called /
// the target field is written only from the listed functions.
func (e *Env) verifyCensus(it *Item) {
	w := e.w
	kind, target := it.Opts["census-kind"], it.Opts["census-target"]
	allowed := map[string]bool{}
	for _, f := range splitTop(it.Opts["census-within"], ',') {
		allowed[strings.TrimSpace(f)] = true
	}
	var offenders []string
	seen := 0
	for fn := range w.allFuncs {
		if !inRepo(fn) || len(fn.Blocks) == 0 {
			continue
		}
		qn := funcQName(fn)
		if strings.HasPrefix(qn, "internal/testutil.") {
			continue
		}
		// closures count as their enclosing function
		encl := fn
		for encl.Parent() != nil {
			encl = encl.Parent()
		}
		caller := funcQName(encl)
		for _, b := range fn.Blocks {
			for _, ins := range b.Instrs {
				hit := false
				switch kind {
				case "calls":
					var cc *ssa.CallCommon
					switch x := ins.(type) {
					case *ssa.Call:
						cc = &x.Call
					case *ssa.Defer:
						cc = &x.Call
					case *ssa.Go:
						cc = &x.Call
					}
					if cc != nil {
						if callee := cc.StaticCallee(); callee != nil {
							c := callee
							if o := callee.Origin(); o != nil {
								c = o
							}
							if funcQName(c) == target || funcQName(callee) == target {
								hit = true
							}
						}
					}
				case "writes":
					if st, ok := ins.(*ssa.Store); ok {
						if fa, ok := st.Addr.(*ssa.FieldAddr); ok {
							pt, _ := fa.X.Type().Underlying().(*types.Pointer)
							if pt != nil {
								if nt, ok := pt.Elem().(*types.Named); ok && nt.Obj().Pkg() != nil {
									stt := nt.Underlying().(*types.Struct)
									p := strings.TrimPrefix(nt.Obj().Pkg().Path(), modPath+"/")
									if nt.Obj().Pkg().Path() == modPath {
										p = "hotstuff"
									}
									if p+"."+nt.Obj().Name()+"."+stt.Field(fa.Field).Name() == target {
										hit = true
									}
								}
							}
						}
					}
				}
				if hit {
					seen++
					if !allowed[caller] {
						offenders = append(offenders, caller)
					}
				}
			}
		}
	}
	ob := &Obligation{Name: e.top, Func: e.top, Kind: "census", Property: e.prop, Expect: "unsat", Solver: "ssa-scan"}
	sort.Strings(offenders)
	if len(offenders) == 0 && seen > 0 {
		ob.Verdict, ob.OK = "unsat", true
		ob.Goal = fmt.Sprintf("%d site(s), all within the listed functions", seen)
	} else if seen == 0 {
		ob.Verdict, ob.OK = "unknown", false
		ob.Note = "no site found: target renamed or census mistyped"
	} else {
		ob.Verdict, ob.OK = "sat", false
		ob.Note = "sites outside the listed functions: " + strings.Join(dedupe(offenders), ", ")
		ob.Model = ob.Note
	}
	e.obs = append(e.obs, ob)
}
