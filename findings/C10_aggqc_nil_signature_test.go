package cert_test

import (
	"testing"

	"github.com/relab/hotstuff"
	"github.com/relab/hotstuff/internal/testutil"
	"github.com/relab/hotstuff/security/crypto"
)

// Witness for the known finding on VerifyAggregateQC: an aggregate QC without signature (what
// an absent signature on the wire decodes to) makes it panic. Not repaired: the repository's
// own TestVerifyAggregateQCPanic asserts this panic.
func TestGovcFindingAggQCNilSignature(t *testing.T) {
	set := testutil.NewEssentialsSet(t, 4, crypto.NameECDSA)
	defer func() {
		if r := recover(); r != nil {
			t.Fatalf("VerifyAggregateQC panicked on a nil signature: %v", r)
		}
	}()
	_, _ = set.Signers()[0].VerifyAggregateQC(hotstuff.NewAggregateQC(map[hotstuff.ID]hotstuff.QuorumCert{}, nil, 3))
}
