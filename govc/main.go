package main

import (
	"os/exec"
	"encoding/json"
	"flag"
	"fmt"
	"os"
	"sort"
	"strings"
	"sync"
	"time"
)

func main() {
	if len(os.Args) < 2 {
		fmt.Fprintln(os.Stderr, "usage: govc verify|check|replay ...")
		os.Exit(2)
	}
	switch os.Args[1] {
	case "verify":
		cmdVerify(os.Args[2:])
	case "check":
		cmdCheck(os.Args[2:])
	case "replay":
		// bin/check --replay <replay.json>: re-runs the recorded counterexample against the real
		// code (go test -overlay), or, where the verifier had no failing input, prints the failed
		// obligation with the solver's output
		fs := flag.NewFlagSet("replay", flag.ExitOnError)
		file := fs.String("file", "", "replay file written by a check")
		fs.Parse(os.Args[2:])
		b, err := os.ReadFile(*file)
		if err != nil {
			fmt.Fprintln(os.Stderr, err)
			os.Exit(2)
		}
		var rec map[string]any
		if err := json.Unmarshal(b, &rec); err != nil {
			fmt.Fprintln(os.Stderr, err)
			os.Exit(2)
		}
		fmt.Printf("obligation: %v\nproperty:   %v\nverdict:    %v\n", rec["obligation"], rec["property"], rec["verdict"])
		if rp, ok := rec["replay"].(map[string]any); ok && rp["command"] != nil {
			fmt.Printf("inputs:     %v\nreplaying on the real code: %v\n", rp["inputs"], rp["command"])
			cmd := exec.Command("sh", "-c", fmt.Sprint(rp["command"]))
			cmd.Env = append(os.Environ(), "GOFLAGS=-mod=mod", "GOPROXY=off")
			out, _ := cmd.CombinedOutput()
			fmt.Print(string(out))
			fmt.Printf("observed when the replay file was written: %v\n", rp["observed"])
			os.Exit(1) // the recorded violation
		}
		fmt.Println("no-failing-input-found: the verifier has no concrete input for this obligation; solver output and query:")
		for _, k := range []string{"error", "solvers", "solver", "solver_output", "note", "smt_query_file"} {
			if v, ok := rec[k]; ok {
				fmt.Printf("  %s: %v\n", k, v)
			}
		}
		os.Exit(1)
	case "params":
		// records the parameter / result names of every function under contract (the positions
		// the names in the contracts stand for): written to /verif/contract-params.json
		w, err := loadWorld("/repo", []string{"./..."})
		if err != nil {
			fmt.Fprintln(os.Stderr, err)
			os.Exit(2)
		}
		out := map[string]map[string][]string{}
		for _, it := range w.items {
			if it.Kind != "func" {
				continue
			}
			fn := w.findFunc(it.Pkg, it.Name)
			if fn == nil {
				continue
			}
			var ps, rs []string
			for _, p := range fn.Params {
				ps = append(ps, p.Name())
			}
			res := fn.Signature.Results()
			for i := 0; i < res.Len(); i++ {
				rs = append(rs, res.At(i).Name())
			}
			out[it.Pkg+"::"+it.Name] = map[string][]string{"params": ps, "results": rs}
		}
		b, _ := json.MarshalIndent(out, "", " ")
		fmt.Println(string(b))
	case "funcs":
		w, err := loadWorld("/repo", []string{"./..."})
		if err != nil {
			fmt.Fprintln(os.Stderr, err)
			os.Exit(2)
		}
		var ks []string
		for k := range w.funcsByKey {
			if len(os.Args) < 3 || strings.Contains(k, os.Args[2]) {
				ks = append(ks, k)
			}
		}
		sort.Strings(ks)
		for _, k := range ks {
			fmt.Println(k)
		}
	default:
		fmt.Fprintln(os.Stderr, "unknown command", os.Args[1])
		os.Exit(2)
	}
}

// selectItems returns the contract items to verify for a property (or all).
func (w *World) selectItems(prop, fn string) []*Item {
	var out []*Item
	pkgsSeen := map[string]bool{}
	defer func() {}()
	for _, it := range w.items {
		if it.Kind != "func" && it.Kind != "lemma" && it.Kind != "census" {
			continue
		}
		if it.Trusted {
			continue
		}
		if prop != "" && !hasProp(it.Property, prop) {
			continue
		}
		if fn != "" && !strings.Contains(it.Name, fn) {
			continue
		}
		out = append(out, it)
		pkgsSeen[it.Pkg] = true
	}
	// well-foundedness of the recursive spec functions of the packages involved
	if fn == "" || strings.HasPrefix(fn, "wf:") {
		for _, it := range w.items {
			if it.Kind == "pure" && w.recursive[it] && (pkgsSeen[it.Pkg] || prop == "") {
				cp := *it
				cp.Property = prop
				cp.Opts = map[string]string{}
				for _, o := range w.items {
					if o.Pkg == it.Pkg && o.Mode == "bytebv" {
						cp.Mode = "bytebv"
					}
				}
				out = append(out, &cp)
			}
		}
	}
	return out
}

func (w *World) verifyAll(items []*Item, timeoutMs, par int) []*FuncResult {
	res := make([]*FuncResult, len(items))
	sem := make(chan struct{}, par)
	var wg sync.WaitGroup
	for i, it := range items {
		wg.Add(1)
		go func(i int, it *Item) {
			defer wg.Done()
			sem <- struct{}{}
			defer func() { <-sem }()
			res[i] = w.verifyItem(it, timeoutMs)
		}(i, it)
	}
	wg.Wait()
	return res
}

func cmdVerify(args []string) {
	fs := flag.NewFlagSet("verify", flag.ExitOnError)
	repo := fs.String("repo", "/repo", "repository root")
	prop := fs.String("prop", "", "property id")
	fn := fs.String("func", "", "function name substring")
	timeout := fs.Int("timeout", 10000, "per-obligation timeout (ms)")
	par := fs.Int("par", 12, "parallel functions")
	verbose := fs.Bool("v", false, "verbose")
	dump := fs.String("dump", "", "dump the standalone query of the named obligation to stdout")
	jsonOut := fs.String("json", "", "write results as JSON")
	fs.Parse(args)
	t0 := time.Now()
	w, err := loadWorld(*repo, []string{"./..."})
	if err != nil {
		fmt.Fprintln(os.Stderr, "load:", err)
		os.Exit(2)
	}
	fmt.Fprintf(os.Stderr, "loaded in %.1fs, %d contract items\n", time.Since(t0).Seconds(), len(w.items))
	items := w.selectItems(*prop, *fn)
	results := w.verifyAll(items, *timeout, *par)
	bad := 0
	total := 0
	for _, r := range results {
		status := "ok"
		if r.Error != "" {
			status = "ERROR " + r.Error
			bad++
		}
		nOK := 0
		for _, o := range r.Obligations {
			total++
			if o.OK {
				nOK++
			} else {
				bad++
			}
		}
		fmt.Printf("%-60s %s %d/%d obligations  %.2fs  [%s]\n", r.Func, status, nOK, len(r.Obligations), r.Time, r.Property)
		for _, o := range r.Obligations {
			if !o.OK || *verbose {
				fmt.Printf("    %-70s %s (want %s) %s %.2fs\n", o.Name, o.Verdict, o.Expect, o.Solver, o.Time)
				if !o.OK && o.Note != "" {
					n := o.Note
					if len(n) > 160 {
						n = n[:160]
					}
					fmt.Printf("      note: %s\n", n)
				}
				if !o.OK && o.Model != "" && *verbose {
					fmt.Printf("      model: %s\n", strings.ReplaceAll(o.Model, "\n", " "))
				}
			}
			if *dump != "" && strings.Contains(o.Name, *dump) {
				if os.Getenv("GOVC_DUMP_HINTED") != "" && o.Hinted != "" {
					fmt.Println(o.Hinted)
				} else {
					fmt.Println(o.Query)
				}
			}
		}
		if *verbose {
			for _, l := range r.Loops {
				fmt.Println("    ", l)
			}
		}
	}
	fmt.Printf("total: %d obligations, %d problems, %.1fs\n", total, bad, time.Since(t0).Seconds())
	if *jsonOut != "" {
		sort.Slice(results, func(i, j int) bool { return results[i].Func < results[j].Func })
		b, _ := json.MarshalIndent(results, "", " ")
		os.WriteFile(*jsonOut, b, 0o644)
	}
	if bad > 0 {
		os.Exit(1)
	}
}


func hasProp(tags, prop string) bool {
	for _, t := range strings.Split(tags, ",") {
		if strings.TrimSpace(t) == prop {
			return true
		}
	}
	return false
}
