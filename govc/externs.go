package main

// Extern contracts for functions outside the repository. Every entry is an assumption
// and is reported in the trusted base of each evidence file that used it.

import (
	"fmt"
	"go/types"
	"strings"

	"golang.org/x/tools/go/ssa"
)

type externFn func(e *Env, fr *Frame, fn *ssa.Function, args []Value, rt types.Type, st *State) Value
type ifaceExternFn func(e *Env, fr *Frame, recv *Iface, m *types.Func, args []Value, rt types.Type, st *State) Value

func noResult(rt types.Type) bool {
	tup, ok := rt.(*types.Tuple)
	return ok && tup.Len() == 0
}

func extNoop(e *Env, fr *Frame, fn *ssa.Function, args []Value, rt types.Type, st *State) Value {
	if noResult(rt) {
		return nil
	}
	return e.freshValue(rt, "ext")
}

// extNonNilError: returns a non-nil error (fmt.Errorf, errors.New)
func extNonNil(e *Env, fr *Frame, fn *ssa.Function, args []Value, rt types.Type, st *State) Value {
	v := e.freshValue(rt, "err").(*Iface)
	e.assume(sx(">", v.T, "0"))
	return v
}

// extStatusError: grpc status.Error(code, msg) is nil exactly for codes.OK (0)
func extStatusError(e *Env, fr *Frame, fn *ssa.Function, args []Value, rt types.Type, st *State) Value {
	v := e.freshValue(rt, "err").(*Iface)
	code := e.flatten(args[0])[0]
	e.assume(mkEq(mkEq(v.T, "0"), mkEq(code, "0")))
	return v
}

// reflect.TypeFor[T]() and reflect.TypeOf(x): the reflect.Type is a function (rtype!) of the
// type tag, so TypeOf(x) == TypeFor[T]() exactly when x's dynamic type is T.
func (e *Env) rtypeTerm(tag string) string {
	if !e.declared["rtype!"] {
		e.declared["rtype!"] = true
		e.sess.Cmd("(declare-fun |rtype!| (Int) Int)")
		e.sess.Cmd("(assert (forall ((t Int)) (! (> (|rtype!| t) 0) :pattern ((|rtype!| t)))))")
		e.sess.Cmd("(assert (forall ((a Int) (b Int)) (! (=> (= (|rtype!| a) (|rtype!| b)) (= a b)) :pattern ((|rtype!| a) (|rtype!| b)))))")
	}
	return sx("|rtype!|", tag)
}

func extReflectTypeFor(e *Env, fr *Frame, fn *ssa.Function, args []Value, rt types.Type, st *State) Value {
	ta := fn.TypeArgs()
	if len(ta) != 1 {
		return extNonNil(e, fr, fn, args, rt, st)
	}
	e.declIface()
	return &Iface{T: e.rtypeTerm(e.typeTag(ta[0])), Typ: rt}
}

func extReflectTypeOf(e *Env, fr *Frame, fn *ssa.Function, args []Value, rt types.Type, st *State) Value {
	iv, ok := args[0].(*Iface)
	if !ok {
		return extNonNil(e, fr, fn, args, rt, st)
	}
	e.declIface()
	return &Iface{T: mkIte(mkEq(iv.T, "0"), "0", e.rtypeTerm(sx("dyntag", iv.T))), Typ: rt}
}

// extNonNilPtr: returns a non-nil pointer to an object of the external type (time.AfterFunc ...)
func extNonNilPtr(e *Env, fr *Frame, fn *ssa.Function, args []Value, rt types.Type, st *State) Value {
	v := e.freshValue(rt, "ext")
	if p, ok := v.(*Ptr); ok {
		e.assume(mkAnd(sx("<", "0", p.Ref)))
	}
	return v
}

func extNonNegInt(e *Env, fr *Frame, fn *ssa.Function, args []Value, rt types.Type, st *State) Value {
	v := e.freshValue(rt, "rnd")
	e.assume(sx("<=", "0", e.flatten(v)[0]))
	return v
}

var externs map[string]externFn

func init() {
	externs = map[string]externFn{
	"(*sync.Mutex).Lock":      extNoop,
	"(*sync.Mutex).Unlock":    extNoop,
	"(*sync.RWMutex).Lock":    extNoop,
	"(*sync.RWMutex).Unlock":  extNoop,
	"(*sync.RWMutex).RLock":   extNoop,
	"(*sync.RWMutex).RUnlock": extNoop,
	"(*sync.WaitGroup).Add":   extNoop,
	"(*sync.WaitGroup).Done":  extNoop,
	"(*sync.WaitGroup).Wait":  extNoop,
	"fmt.Errorf":              extNonNil,
	"errors.New":              extNonNil,
	"fmt.Sprintf":             extNoop,
	"fmt.Sprint":              extNoop,
	"fmt.Sprintln":            extNoop,
	"fmt.Println":             extNoop,
	"fmt.Printf":              extNoop,
	"errors.Join":             extErrorsJoin,
	"errors.Is":               extNoop,
	"time.Now":                extNoop,
	"time.Since":              extNoop,
	"(time.Time).UnixNano":    extNoop,
	"slices.Index":            extSlicesIndex,
	"slices.Contains":         extSlicesContains,
	"slices.Clone":            extSlicesClone,
	"slices.ContainsFunc":     extSlicesContainsFunc,
	"slices.IndexFunc":        extSlicesIndexFunc,
	"slices.DeleteFunc":       extSlicesDeleteFunc,
	"slices.SortFunc":         extSlicesSortFunc,
	"slices.Sort":             extSlicesSortFunc,
	"cmp.Compare":             extCmpCompare,
	"(*github.com/relab/gorums.ServerCtx).Release": extNoop, // lets gorums process the next request; no replica state
	"maps.Keys":               extMapsKeys,
	"slices.Sorted":           extSlicesSorted,
	"(encoding/binary.littleEndian).PutUint32": extPutUint(4),
	"(encoding/binary.littleEndian).PutUint64": extPutUint(8),
	"math/rand.NewSource":     extNonNil,
	"math/rand.New":           extNonNilPtr,
	"(*math/rand.Rand).Int":   extNonNegInt,
	"math.Ceil":               extMathCeil,
	"google.golang.org/grpc/status.Error":  extStatusError,
	"google.golang.org/grpc/status.Errorf": extStatusError,
	"context.WithCancel":      extNoop,
	"context.Background":      extNoop,
	"(*strings.Builder).WriteString": extNoop,
	"(*strings.Builder).String":      extBuilderString,
	"(*strings.Builder).Write":       extBuilderWrite,
	"crypto/sha256.Sum256":           extSha256Sum,
	"crypto/sha256.New":              extNonNil,
	"time.AfterFunc":                 extNonNilPtr,
	"time.NewTimer":                  extNonNilPtr,
	"reflect.TypeFor":                extReflectTypeFor,
	"reflect.TypeOf":                 extReflectTypeOf,
	"google.golang.org/protobuf/types/known/timestamppb.New":          extTimestampNew,
	"(*google.golang.org/protobuf/types/known/timestamppb.Timestamp).AsTime": extTimestampAsTime,
	"strconv.Itoa":                   extNoop,
	"(*math/rand.Rand).Shuffle":      nil, // needs a dedicated model; absent = unsupported
}
}

func findExtern(name string, fn *ssa.Function) externFn {
	if k := strings.Index(name, "["); k >= 0 && !strings.HasPrefix(name, "(") {
		name = name[:k]
	}
	if h, ok := externs[name]; ok && h != nil {
		return h
	}
	for _, p := range pureExternPrefixes {
		if strings.HasPrefix(name, p) {
			return extNoop
		}
	}
	return nil
}

// Standard-library functions treated as pure: they read their arguments, write nothing the
// caller can observe, do not panic, and return an unspecified (fresh) value.
var pureExternPrefixes = []string{
	"fmt.Sprint", "fmt.Print", "fmt.Fprint", "strings.", "strconv.", "(*encoding/base64.Encoding).EncodeToString",
	"encoding/hex.EncodeToString", "time.", "(time.Time).", "(time.Duration).", "(*time.Timer).", "unicode.", "unicode/utf8.",
	"(*strings.Builder).", "(*container/list.List).", "(*container/list.Element).", "math.", "errors.Is", "errors.As", "errors.Unwrap", "os.Getenv", "runtime.", "(*sync.Once).",
	"github.com/kilic/bls12-381.", "(*github.com/kilic/bls12-381.", "context.With", "context.Background", "context.TODO", "bytes.Equal", "bytes.Compare", "crypto/sha256.Sum256", "crypto/sha512.", "(*google.golang.org/protobuf/types/known/timestamppb.Timestamp).", "google.golang.org/protobuf/types/known/timestamppb.", "(*sync/atomic.", "sync/atomic.",
}

func findIfaceExtern(t types.Type, m *types.Func) ifaceExternFn {
	n, ok := t.(*types.Named)
	if !ok {
		// error interface (universe)
		return nil
	}
	if n.Obj().Pkg() == nil {
		if n.Obj().Name() == "error" && m.Name() == "Error" {
			return func(e *Env, fr *Frame, recv *Iface, m *types.Func, args []Value, rt types.Type, st *State) Value {
				e.panicCheck(fr, "nil", st, mkNot(mkEq(recv.T, "0")))
				return e.freshValue(rt, "errstr")
			}
		}
		return nil
	}
	key := n.Obj().Pkg().Path() + "." + n.Obj().Name() + "." + m.Name()
	switch key {
	case "context.Context.Done", "context.Context.Err", "context.Context.Value", "context.Context.Deadline":
		return func(e *Env, fr *Frame, recv *Iface, m *types.Func, args []Value, rt types.Type, st *State) Value {
			return e.freshValue(rt, "ctx")
		}
	case "hash.Hash.Write", "hash.Hash.Sum":
		// the digest state of a hash.Hash is not modelled: no effect on modelled state, no panic
		// on a non-nil receiver, unspecified results
		return func(e *Env, fr *Frame, recv *Iface, m *types.Func, args []Value, rt types.Type, st *State) Value {
			e.panicCheck(fr, "nil", st, mkNot(mkEq(recv.T, "0")))
			e.trust("hash.Hash." + m.Name() + ": digest state not modelled (Write has no effect on modelled state; Sum into a view of a local byte array makes that array arbitrary)")
			if m.Name() == "Sum" && len(args) == 1 {
				if b, ok := args[0].(*Slice); ok {
					if vo, isView := e.arrayViewAt[b.Arr]; isView && !fr.pure {
						e.store(st, vo.ptr, e.freshValue(vo.ptr.pointee(), "digest"))
					}
				}
			}
			if noResult(rt) {
				return nil
			}
			return e.freshValue(rt, "hash")
		}
	}
	return nil
}

func extErrorsJoin(e *Env, fr *Frame, fn *ssa.Function, args []Value, rt types.Type, st *State) Value {
	// errors.Join(errs...) == nil iff all are nil
	s := args[0].(*Slice)
	v := e.freshValue(rt, "joined").(*Iface)
	et := s.Typ.Underlying().(*types.Slice).Elem()
	name := "E!" + typeKey(et) + "!"
	srt := heapSort("E", sInt, "")
	arr := e.heapGet(st, name, srt)
	j := "|$j|"
	allNil := fmt.Sprintf("(forall ((%s Int)) (=> (and (<= 0 %s) (< %s %s)) (= (select (select %s %s) %s) 0)))", j, j, j, s.Len, arr, s.Arr, ixTerm(s.Off, j))
	if isNumeral(s.Len) && atoi(s.Len) <= 8 {
		var cs []string
		for k := 0; k < atoi(s.Len); k++ {
			cs = append(cs, mkEq(mkSelect(mkSelect(arr, s.Arr), ixTerm(s.Off, fmt.Sprint(k))), "0"))
		}
		allNil = mkAnd(cs...)
	}
	e.assume(mkEq(mkEq(v.T, "0"), allNil))
	return v
}

// slices.Index(s, v): first index of v or -1
func extSlicesIndex(e *Env, fr *Frame, fn *ssa.Function, args []Value, rt types.Type, st *State) Value {
	s := args[0].(*Slice)
	et := s.Typ.Underlying().(*types.Slice).Elem()
	ls := e.leavesOf(et)
	if len(ls) != 1 {
		unsupp("slices.Index on composite elements")
	}
	name := "E!" + typeKey(et) + "!" + ls[0].Path
	srt := heapSort("E", ls[0].Sort, "")
	arr := e.heapGet(st, name, srt)
	v := e.flatten(args[1])[0]
	r := e.fresh("idx", sInt)
	j := "|$j|"
	at := func(i string) string { return mkSelect(mkSelect(arr, s.Arr), ixTerm(s.Off, i)) }
	e.assume(mkOr(
		mkAnd(mkEq(r, "(- 1)"), fmt.Sprintf("(forall ((%s Int)) (! (=> (and (<= 0 %s) (< %s %s)) (not (= %s %s))) :pattern (%s)))", j, j, j, s.Len, at(j), v, at(j))),
		mkAnd(sx("<=", "0", r), sx("<", r, s.Len), mkEq(at(r), v),
			fmt.Sprintf("(forall ((%s Int)) (! (=> (and (<= 0 %s) (< %s %s)) (not (= %s %s))) :pattern (%s)))", j, j, j, r, at(j), v, at(j)))))
	return intV(r, rt)
}

func extSlicesContains(e *Env, fr *Frame, fn *ssa.Function, args []Value, rt types.Type, st *State) Value {
	idx := extSlicesIndex(e, fr, fn, args, types.Typ[types.Int], st).(*Sc)
	return boolV(sx(">=", idx.T, "0"))
}

func extSlicesClone(e *Env, fr *Frame, fn *ssa.Function, args []Value, rt types.Type, st *State) Value {
	s := args[0].(*Slice)
	et := s.Typ.Underlying().(*types.Slice).Elem()
	r := e.alloc(st)
	names, sorts, leaves := e.elemArrays(et)
	for i, name := range names {
		arr := e.heapGet(st, name, sorts[i])
		inner := "(Array Int " + leaves[i].Sort + ")"
		ni := e.fresh("cloned", inner)
		j := "|$j|"
		e.assume(fmt.Sprintf("(forall ((%s Int)) (! (=> (and (<= 0 %s) (< %s %s)) (= (select %s %s) (select (select %s %s) %s))) :pattern ((select %s %s))))",
			j, j, j, s.Len, ni, j, arr, s.Arr, ixTerm(s.Off, j), ni, j))
		e.heapSet(st, name, sorts[i], e.maybeName(mkStore(arr, r, ni), sorts[i]))
		e.noteWrite(name, r)
	}
	// Clone(nil) is nil; otherwise a fresh array with cap >= len
	cp := e.fresh("clonecap", sInt)
	e.assume(mkAnd(sx(">=", cp, s.Len), sx("<=", cp, "281474976710656")))
	isNil := mkEq(s.Arr, "0")
	return &Slice{Arr: mkIte(isNil, "0", r), Off: "0", Len: s.Len, Cap: mkIte(isNil, "0", cp), Typ: rt}
}

// maps.Keys(m) is only supported as the argument of slices.Sorted: the value is the map.
type SeqV struct {
	m   *MapV
	typ types.Type
}

func (s *SeqV) vtype() types.Type { return s.typ }

func extMapsKeys(e *Env, fr *Frame, fn *ssa.Function, args []Value, rt types.Type, st *State) Value {
	m, ok := args[0].(*MapV)
	if !ok {
		unsupp("maps.Keys of %T", args[0])
	}
	return &SeqV{m: m, typ: rt}
}

// slices.Sorted(maps.Keys(m)) for integer keys: a fresh slice holding exactly the keys of m,
// each once, in strictly ascending order.
func extSlicesSorted(e *Env, fr *Frame, fn *ssa.Function, args []Value, rt types.Type, st *State) Value {
	sq, ok := args[0].(*SeqV)
	if !ok {
		unsupp("slices.Sorted of a sequence other than maps.Keys(m)")
	}
	mt := sq.m.Typ.Underlying().(*types.Map)
	et := rt.Underlying().(*types.Slice).Elem()
	names, sorts, leaves := e.elemArrays(et)
	if len(names) != 1 || leaves[0].Sort != sInt {
		unsupp("slices.Sorted(maps.Keys(m)) for non-integer keys")
	}
	e.trust("slices.Sorted(maps.Keys(m)): exactly the keys of m, each once, strictly ascending")
	dn, _, ks := e.mapNames(mt)
	dom := mkSelect(e.heapGet(st, dn, heapSort("M", sBool, ks)), sq.m.Ref)
	n := e.mapLen(st, sq.m)
	r := e.alloc(st)
	inner := "(Array Int " + sInt + ")"
	ni := e.fresh("sortedkeys", inner)
	e.counter++
	pos := q(fmt.Sprintf("keypos!%d", e.counter))
	e.sess.Cmd("(declare-fun " + pos + " (Int) Int)")
	i, j, k := "|$i|", "|$j|", "|$k|"
	isNil := mkEq(sq.m.Ref, "0")
	e.assume(fmt.Sprintf("(forall ((%s Int)) (! (=> (and (<= 0 %s) (< %s %s)) (and (not %s) (select %s (select %s %s)) %s)) :pattern ((select %s %s))))",
		i, i, i, n, isNil, dom, ni, i, e.typeRange(mkSelect(ni, i), et), ni, i))
	e.assume(fmt.Sprintf("(forall ((%s Int) (%s Int)) (! (=> (and (<= 0 %s) (< %s %s) (< %s %s)) (< (select %s %s) (select %s %s))) :pattern ((select %s %s) (select %s %s))))",
		i, j, i, i, j, j, n, ni, i, ni, j, ni, i, ni, j))
	e.assume(fmt.Sprintf("(forall ((%s Int)) (! (=> (and (not %s) (select %s %s)) (and (<= 0 (%s %s)) (< (%s %s) %s) (= (select %s (%s %s)) %s))) :pattern ((select %s %s))))",
		k, isNil, dom, k, pos, k, pos, k, n, ni, pos, k, k, dom, k))
	arr := e.heapGet(st, names[0], sorts[0])
	e.heapSet(st, names[0], sorts[0], e.maybeName(mkStore(arr, r, ni), sorts[0]))
	e.noteWrite(names[0], r)
	cp := e.fresh("sortedcap", sInt)
	e.assume(mkAnd(sx(">=", cp, n), sx("<=", cp, "281474976710656")))
	return &Slice{Arr: r, Off: "0", Len: n, Cap: cp, Typ: rt}
}

// cmp.Compare on integers: -1, 0, +1.
func extCmpCompare(e *Env, fr *Frame, fn *ssa.Function, args []Value, rt types.Type, st *State) Value {
	x, ok1 := args[0].(*Sc)
	y, ok2 := args[1].(*Sc)
	if !ok1 || !ok2 || x.Sort != sInt || y.Sort != sInt {
		unsupp("cmp.Compare on non-integer operands")
	}
	return &Sc{T: mkIte(sx("<", x.T, y.T), "(- 1)", mkIte(sx(">", x.T, y.T), "1", "0")), Sort: sInt, Typ: rt}
}

func extMathCeil(e *Env, fr *Frame, fn *ssa.Function, args []Value, rt types.Type, st *State) Value {
	a := args[0].(*Sc)
	if e.bvfp {
		return &Sc{T: sx("fp.roundToIntegral", "RTP", a.T), Sort: a.Sort, Typ: rt}
	}
	return &Sc{T: sx(e.uninterpUnop("ceil"), a.T), Sort: sInt, Typ: rt}
}

// closureAt evaluates a predicate closure on element j of slice s (j may be a bound variable).
func (e *Env) closureAt(pred Value, s *Slice, j string, st *State) string {
	fv, ok := pred.(*FuncV)
	if !ok || fv.Fn == nil {
		unsupp("predicate passed to a slices function is not a statically known closure")
	}
	et := s.Typ.Underlying().(*types.Slice).Elem()
	e.quantDepth++
	defer func() { e.quantDepth-- }()
	elem := e.load(st, &Ptr{Kind: "elem", Ref: s.Arr, Idx: ixTerm(s.Off, j), Root: et})
	res := e.pureCall(fv.Fn, fv.Bind, []Value{elem}, st)
	return res[0].(*Sc).T
}

// slices.ContainsFunc(s, p) == exists j. p(s[j])
func extSlicesContainsFunc(e *Env, fr *Frame, fn *ssa.Function, args []Value, rt types.Type, st *State) Value {
	s := args[0].(*Slice)
	j := "|$j|"
	p := e.closureAt(args[1], s, j, st)
	r := e.fresh("containsfunc", sBool)
	e.assume(mkEq(r, fmt.Sprintf("(exists ((%s Int)) (and (<= 0 %s) (< %s %s) %s))", j, j, j, s.Len, p)))
	return boolV(r)
}

// slices.IndexFunc(s, p): first index with p, or -1
func extSlicesIndexFunc(e *Env, fr *Frame, fn *ssa.Function, args []Value, rt types.Type, st *State) Value {
	s := args[0].(*Slice)
	j := "|$j|"
	p := e.closureAt(args[1], s, j, st)
	r := e.fresh("indexfunc", sInt)
	pr := e.closureAt(args[1], s, r, st)
	e.assume(mkOr(
		mkAnd(mkEq(r, "(- 1)"), fmt.Sprintf("(forall ((%s Int)) (=> (and (<= 0 %s) (< %s %s)) (not %s)))", j, j, j, s.Len, p)),
		mkAnd(sx("<=", "0", r), sx("<", r, s.Len), pr,
			fmt.Sprintf("(forall ((%s Int)) (=> (and (<= 0 %s) (< %s %s)) (not %s)))", j, j, j, r, p))))
	return intV(r, rt)
}

// slices.DeleteFunc(s, del): in-place filter. The result shares s's backing array, has the
// elements of s for which del is false, in order (described by Skolem index maps f and g),
// and the vacated tail is zeroed (Go >= 1.22).
func extSlicesDeleteFunc(e *Env, fr *Frame, fn *ssa.Function, args []Value, rt types.Type, st *State) Value {
	s := args[0].(*Slice)
	pre := st.clone()
	et := s.Typ.Underlying().(*types.Slice).Elem()
	e.counter++
	f := q(fmt.Sprintf("delf!%d", e.counter))
	g := q(fmt.Sprintf("delg!%d", e.counter))
	e.sess.Cmd("(declare-fun " + f + " (Int) Int)")
	e.sess.Cmd("(declare-fun " + g + " (Int) Int)")
	n := e.fresh("dellen", sInt)
	e.assume(mkAnd(sx("<=", "0", n), sx("<=", n, s.Len)))
	k, k2, j := "|$k|", "|$k2|", "|$j|"
	pf := e.closureAt(args[1], s, sx(f, k), pre)
	pj := e.closureAt(args[1], s, j, pre)
	e.assume(fmt.Sprintf("(forall ((%s Int)) (! (=> (and (<= 0 %s) (< %s %s)) (and (<= 0 (%s %s)) (< (%s %s) %s) (not %s))) :pattern ((%s %s))))", k, k, k, n, f, k, f, k, s.Len, pf, f, k))
	e.assume(fmt.Sprintf("(forall ((%s Int) (%s Int)) (! (=> (and (<= 0 %s) (< %s %s) (< %s %s)) (< (%s %s) (%s %s))) :pattern ((%s %s) (%s %s))))", k, k2, k, k, k2, k2, n, f, k, f, k2, f, k, f, k2))
	e.assume(fmt.Sprintf("(forall ((%s Int)) (! (=> (and (<= 0 %s) (< %s %s) (not %s)) (and (<= 0 (%s %s)) (< (%s %s) %s) (= (%s (%s %s)) %s))) :pattern ((%s %s))))", j, j, j, s.Len, pj, g, j, g, j, n, f, g, j, j, g, j))
	names, sorts, leaves := e.elemArrays(et)
	for i, name := range names {
		arr := e.heapGet(st, name, sorts[i])
		inner := "(Array Int " + leaves[i].Sort + ")"
		old := e.maybeNameForce(mkSelect(arr, s.Arr), inner, "delold")
		ni := e.fresh("deleted", inner)
		e.assume(fmt.Sprintf("(forall ((%s Int)) (! (=> (and (<= 0 %s) (< %s %s)) (= (select %s %s) (select %s %s))) :pattern ((select %s %s))))", k, k, k, n, ni, ixTerm(s.Off, k), old, ixTerm(s.Off, sx(f, k)), ni, ixTerm(s.Off, k)))
		e.assume(fmt.Sprintf("(forall ((%s Int)) (! (=> (and (<= %s %s) (< %s %s)) (= (select %s %s) %s)) :pattern ((select %s %s))))", k, n, k, k, s.Len, ni, ixTerm(s.Off, k), e.zeroLeaf(leaves[i]), ni, ixTerm(s.Off, k)))
		e.assume(fmt.Sprintf("(forall ((%s Int)) (! (=> (or (< %s %s) (>= %s (+ %s %s))) (= (select %s %s) (select %s %s))) :pattern ((select %s %s))))", j, j, s.Off, j, s.Off, s.Len, ni, j, old, j, ni, j))
		e.heapSet(st, name, sorts[i], e.maybeName(mkStore(arr, s.Arr, ni), sorts[i]))
		e.noteWrite(name, s.Arr)
	}
	return &Slice{Arr: s.Arr, Off: s.Off, Len: n, Cap: s.Cap, Typ: rt}
}

// slices.SortFunc(s, cmp): the elements are permuted in place (bijection pi on the index
// range). Sortedness with respect to cmp is NOT assumed (it only holds when cmp is a strict
// weak ordering, which is the caller's obligation and is not established here).
func extSlicesSortFunc(e *Env, fr *Frame, fn *ssa.Function, args []Value, rt types.Type, st *State) Value {
	s := args[0].(*Slice)
	et := s.Typ.Underlying().(*types.Slice).Elem()
	pre := st.clone()
	e.counter++
	pi := q(fmt.Sprintf("sortpi!%d", e.counter))
	inv := q(fmt.Sprintf("sortinv!%d", e.counter))
	e.sess.Cmd("(declare-fun " + pi + " (Int) Int)")
	e.sess.Cmd("(declare-fun " + inv + " (Int) Int)")
	k, j := "|$k|", "|$j|"
	// (the inverse law for pi is triggered only by an existing inv(pi(k)) term: stating it under
	// the pattern pi(k) makes the two laws feed each other without end)
	e.assume(fmt.Sprintf("(forall ((%s Int)) (! (=> (and (<= 0 %s) (< %s %s)) (and (<= 0 (%s %s)) (< (%s %s) %s))) :pattern ((%s %s))))", k, k, k, s.Len, pi, k, pi, k, s.Len, pi, k))
	e.assume(fmt.Sprintf("(forall ((%s Int)) (! (=> (and (<= 0 %s) (< %s %s)) (= (%s (%s %s)) %s)) :pattern ((%s (%s %s)))))", k, k, k, s.Len, inv, pi, k, k, inv, pi, k))
	e.assume(fmt.Sprintf("(forall ((%s Int)) (! (=> (and (<= 0 %s) (< %s %s)) (and (<= 0 (%s %s)) (< (%s %s) %s) (= (%s (%s %s)) %s))) :pattern ((%s %s))))", j, j, j, s.Len, inv, j, inv, j, s.Len, pi, inv, j, j, inv, j))
	names, sorts, leaves := e.elemArrays(et)
	var firstNew, firstOld string
	for i, name := range names {
		arr := e.heapGet(st, name, sorts[i])
		inner := "(Array Int " + leaves[i].Sort + ")"
		old := e.maybeNameForce(mkSelect(arr, s.Arr), inner, "sortold")
		ni := e.fresh("sorted", inner)
		if i == 0 {
			firstNew, firstOld = ni, old
		}
		// every input element is found again at position inv(j) of the result
		e.assume(fmt.Sprintf("(forall ((%s Int)) (! (=> (and (<= 0 %s) (< %s %s)) (= (select %s %s) (select %s %s))) :pattern ((select %s %s))))", j, j, j, s.Len, old, ixTerm(s.Off, j), ni, ixTerm(s.Off, sx(inv, j)), old, ixTerm(s.Off, j)))
		e.assume(fmt.Sprintf("(forall ((%s Int)) (! (=> (and (<= 0 %s) (< %s %s)) (= (select %s %s) (select %s %s))) :pattern ((select %s %s))))", k, k, k, s.Len, ni, ixTerm(s.Off, k), old, ixTerm(s.Off, sx(pi, k)), ni, ixTerm(s.Off, k)))
		e.assume(fmt.Sprintf("(forall ((%s Int)) (! (=> (or (< %s %s) (>= %s (+ %s %s))) (= (select %s %s) (select %s %s))) :pattern ((select %s %s))))", j, j, s.Off, j, s.Off, s.Len, ni, j, old, j, ni, j))
		e.heapSet(st, name, sorts[i], e.maybeName(mkStore(arr, s.Arr, ni), sorts[i]))
		e.noteWrite(name, s.Arr)
	}
	// slices.SortFunc with a statically known comparator closure: IF the comparator is a total
	// preorder on the elements (cmp(a,b) < 0 iff cmp(b,a) > 0, and <= is transitive) THEN the
	// result is ordered by it. The premise is not assumed: whoever needs the order has to
	// prove it from the comparator's body (for `int(b)-int(a)` on 64-bit views it is false).
	if len(args) == 2 {
		if fv, ok := args[1].(*FuncV); ok && fv.Fn != nil && len(fv.Fn.Blocks) > 0 {
			post := &Slice{Arr: s.Arr, Off: s.Off, Len: s.Len, Cap: s.Cap, Typ: s.Typ}
			cmpAt := func(sl *Slice, state *State, a, b string) string {
				e.quantDepth++
				defer func() { e.quantDepth-- }()
				ea := e.load(state, &Ptr{Kind: "elem", Ref: sl.Arr, Idx: ixTerm(sl.Off, a), Root: et})
				eb := e.load(state, &Ptr{Kind: "elem", Ref: sl.Arr, Idx: ixTerm(sl.Off, b), Root: et})
				res := e.pureCall(fv.Fn, fv.Bind, []Value{ea, eb}, state)
				return res[0].(*Sc).T
			}
			a, b, c := "|$a|", "|$b|", "|$c|"
			in := func(x string) string { return mkAnd(sx("<=", "0", x), sx("<", x, s.Len)) }
			cab, cba, cbc, cac := cmpAt(s, pre, a, b), cmpAt(s, pre, b, a), cmpAt(s, pre, b, c), cmpAt(s, pre, a, c)
			consistent := fmt.Sprintf("(forall ((%s Int) (%s Int) (%s Int)) (=> %s (and (= (< %s 0) (> %s 0)) (=> (and (<= %s 0) (<= %s 0)) (<= %s 0)))))",
				a, b, c, mkAnd(in(a), in(b), in(c)), cab, cba, cab, cbc, cac)
			sab := cmpAt(post, st, a, b)
			// (triggered by pairs of reads of result elements)
			sorted := fmt.Sprintf("(forall ((%s Int) (%s Int)) (! (=> (and (<= 0 %s) (< %s %s) (< %s %s)) (<= %s 0)) :pattern ((select %s %s) (select %s %s))))",
				a, b, a, a, b, b, s.Len, sab, firstNew, ixTerm(s.Off, a), firstNew, ixTerm(s.Off, b))
			_ = firstOld
			e.assume(mkImp(st.pc, mkImp(consistent, sorted)))
			e.trust("slices.SortFunc orders its argument when the comparator is a total preorder on the elements (premise proved where used)")
		}
	}
	return nil
}
