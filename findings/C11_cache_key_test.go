package cert_test

// dest: security/cert/zz_govc_c11_cache_test.go
//
// Witnesses for the finding on cert.Cache (C11, "a signature remembered as valid for one
// message or batch is never accepted for a different batch ... or a different claimed signer
// set"): the cached and the uncached authority are driven with the same operations and must
// give the same verdicts.

import (
	"testing"

	"github.com/relab/hotstuff"
	"github.com/relab/hotstuff/security/crypto"
)

// (a) BatchVerify: the batch digest was computed into a discarded slice (hasher.Sum(hash[:])
// appends), so the key was all-zero digest + signature bytes: any batch is accepted once the
// signature has been seen with one valid batch.
func TestGovcFindingCacheAcceptsOtherBatch(t *testing.T) {
	for _, cacheSize := range []uint{0, 10} {
		dummies := createDummies(t, 4, crypto.NameECDSA, cacheSize)
		signers := dummies.Signers()
		good := map[hotstuff.ID][]byte{1: []byte("view 7, high QC a"), 2: []byte("view 7, high QC b")}
		s1, err := signers[0].Sign(good[1])
		if err != nil {
			t.Fatal(err)
		}
		s2, err := signers[1].Sign(good[2])
		if err != nil {
			t.Fatal(err)
		}
		agg, err := signers[2].Combine(s1, s2)
		if err != nil {
			t.Fatal(err)
		}
		verifier := signers[3]
		if err := verifier.BatchVerify(agg, good); err != nil {
			t.Fatalf("setup (cache %d): %v", cacheSize, err)
		}
		forged := map[hotstuff.ID][]byte{1: []byte("view 9, high QC x"), 2: []byte("view 9, high QC y")}
		if err := verifier.BatchVerify(agg, forged); err == nil {
			t.Errorf("cache %d: signature over one batch accepted for a different batch", cacheSize)
		}
	}
}

// (b) Verify: the key holds the raw signature bytes but not who is claimed to have signed.
func TestGovcFindingCacheAcceptsRelabelledSigner(t *testing.T) {
	for _, cacheSize := range []uint{0, 10} {
		dummies := createDummies(t, 4, crypto.NameECDSA, cacheSize)
		signers := dummies.Signers()
		msg := []byte("block 42")
		sig, err := signers[0].Sign(msg)
		if err != nil {
			t.Fatal(err)
		}
		verifier := signers[3]
		if err := verifier.Verify(sig, msg); err != nil {
			t.Fatalf("setup (cache %d): %v", cacheSize, err)
		}
		relabelled := crypto.NewMulti(crypto.RestoreECDSASignature(sig.ToBytes(), 2))
		if err := verifier.Verify(relabelled, msg); err == nil {
			t.Errorf("cache %d: replica 1's signature accepted as replica 2's", cacheSize)
		}
	}
}
