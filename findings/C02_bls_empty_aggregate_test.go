package crypto_test

import (
	"testing"

	"github.com/relab/hotstuff"
	"github.com/relab/hotstuff/internal/testutil"
	"github.com/relab/hotstuff/security/crypto"
)

// Witness (C02: "... only if at least a quorum of distinct configured replicas each produced a
// valid signature ...; this holds for ECDSA, EdDSA and BLS12-381"; crypto.Base contract:
// Verify returns nil only for a signature with at least one participant, as the ECDSA and EdDSA
// implementations check). The BLS implementation accepted the empty aggregate (no
// participants, identity point) for every message: a vote, a timeout's view signature or a
// Kauri contribution signed by nobody "verified".
func TestGovcFindingBLSEmptyAggregateVerifies(t *testing.T) {
	set := testutil.NewEssentialsSet(t, 4, crypto.NameBLS12)
	empty, err := crypto.RestoreBLS12AggregateSignature((&crypto.BLS12AggregateSignature{}).ToBytes(), crypto.Bitfield{})
	if err != nil {
		t.Fatalf("setup: %v", err)
	}
	if n := empty.Participants().Len(); n != 0 {
		t.Fatalf("setup: %d participants", n)
	}
	for _, msg := range [][]byte{[]byte("any message"), hotstuff.View(7).ToBytes()} {
		if err := set.Signers()[0].Verify(empty, msg); err == nil {
			t.Errorf("a signature with no participants verifies for message %q", msg)
		}
	}
	if err := set.Signers()[0].BatchVerify(empty, map[hotstuff.ID][]byte{}); err == nil {
		t.Errorf("a signature with no participants batch-verifies for the empty batch")
	}
}
