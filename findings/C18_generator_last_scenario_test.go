package twins

import (
	"testing"

	"github.com/relab/hotstuff/core/logging"
)

// Witness for the defect fixed by "fix: twins generator yields the last scenario": the
// generator announced 324 scenarios, yielded 323 (the last one was built and discarded with
// io.EOF, Remaining() stayed 1) and a further call panicked with an index out of range.
func TestGovcFindingGeneratorLastScenario(t *testing.T) {
	g := NewGenerator(logging.New(""), Settings{NumNodes: 4, NumTwins: 1, Partitions: 2, Views: 2})
	announced := g.Remaining()
	n := int64(0)
	for {
		if _, err := g.NextScenario(); err != nil {
			break
		}
		n++
	}
	if n != announced || g.Remaining() != 0 {
		t.Fatalf("announced %d scenarios, yielded %d, remaining %d", announced, n, g.Remaining())
	}
	if _, err := g.NextScenario(); err == nil {
		t.Fatalf("expected io.EOF after the last scenario")
	}
}
