package cert_test

import (
	"testing"

	"github.com/relab/hotstuff"
	"github.com/relab/hotstuff/internal/testutil"
	"github.com/relab/hotstuff/security/crypto"
)

// Witness for the defect fixed by "fix: VerifyQuorumCert binds the certificate's view to the
// block's view": a valid QC relabelled to view 999 verified (obligation
// security/cert.(*Authority).VerifyQuorumCert:post:view-bound).
func TestGovcFindingRelabelledQCView(t *testing.T) {
	set := testutil.NewEssentialsSet(t, 4, crypto.NameECDSA)
	signers := set.Signers()
	block := testutil.CreateBlock(t, signers[0])
	for _, e := range set {
		e.Blockchain().Store(block)
	}
	qc := testutil.CreateQC(t, block, signers[:3]...)
	forged := hotstuff.NewQuorumCert(qc.Signature(), 999, block.Hash())
	if err := signers[3].VerifyQuorumCert(forged); err == nil {
		t.Fatalf("a QC for a view-%d block relabelled to view 999 verified", block.View())
	}
	if err := signers[3].VerifyQuorumCert(qc); err != nil {
		t.Fatalf("the genuine QC must verify: %v", err)
	}
}
