package main

// SMT term construction (terms are plain s-expression strings) and solver drivers.

import (
	"bufio"
	"bytes"
	"context"
	"fmt"
	"io"
	"os/exec"
	"strings"
	"sync"
	"time"
)

const (
	tTrue  = "true"
	tFalse = "false"
)

func sx(op string, args ...string) string {
	return "(" + op + " " + strings.Join(args, " ") + ")"
}

func mkInt(n int64) string {
	if n < 0 {
		return fmt.Sprintf("(- %d)", -n)
	}
	return fmt.Sprintf("%d", n)
}

func mkBig(s string) string { // decimal string, maybe negative
	if strings.HasPrefix(s, "-") {
		return "(- " + s[1:] + ")"
	}
	return s
}

func mkNot(a string) string {
	switch a {
	case tTrue:
		return tFalse
	case tFalse:
		return tTrue
	}
	if strings.HasPrefix(a, "(not ") {
		return a[5 : len(a)-1]
	}
	return "(not " + a + ")"
}

func mkAnd(as ...string) string {
	var out []string
	for _, a := range as {
		if a == tTrue {
			continue
		}
		if a == tFalse {
			return tFalse
		}
		out = append(out, a)
	}
	switch len(out) {
	case 0:
		return tTrue
	case 1:
		return out[0]
	}
	return sx("and", out...)
}

func mkOr(as ...string) string {
	var out []string
	for _, a := range as {
		if a == tFalse {
			continue
		}
		if a == tTrue {
			return tTrue
		}
		out = append(out, a)
	}
	switch len(out) {
	case 0:
		return tFalse
	case 1:
		return out[0]
	}
	return sx("or", out...)
}

func mkImp(a, b string) string {
	if a == tTrue {
		return b
	}
	if a == tFalse || b == tTrue {
		return tTrue
	}
	if b == tFalse {
		return mkNot(a)
	}
	return sx("=>", a, b)
}

func mkIte(c, a, b string) string {
	if c == tTrue {
		return a
	}
	if c == tFalse {
		return b
	}
	if a == b {
		return a
	}
	return sx("ite", c, a, b)
}

func mkEq(a, b string) string {
	if a == b {
		return tTrue
	}
	return sx("=", a, b)
}

func mkSelect(a, i string) string {
	// select(store(A, i, v), i) = v  (syntactically equal index)
	if strings.HasPrefix(a, "(store ") {
		// only for stored function numerals (closure identity must survive the heap); for
		// everything else the select term is kept: it is what quantifier triggers match on
		if args := topArgs(a); len(args) == 4 && args[2] == i && isFuncNumeral(args[3]) {
			return args[3]
		}
	}
	return sx("select", a, i)
}

// simplifySelStore rewrites select(store(A, i, v), i) to v (syntactically equal index)
// throughout a term. Used on trigger terms only: the solvers normalise ground terms this way
// before matching, so a trigger that still contains the redex never fires.
func simplifySelStore(t string) string {
	if !strings.Contains(t, "(store ") || len(t) == 0 || t[0] != '(' {
		return t
	}
	args := topArgs(t)
	if len(args) == 0 {
		return t
	}
	for i := 1; i < len(args); i++ {
		args[i] = simplifySelStore(args[i])
	}
	if args[0] == "select" && len(args) == 3 && strings.HasPrefix(args[1], "(store ") {
		if st := topArgs(args[1]); len(st) == 4 && st[2] == args[2] {
			return st[3]
		}
	}
	return "(" + strings.Join(args, " ") + ")"
}

func isFuncNumeral(t string) bool {
	if len(t) != 7 || t[0] != '1' {
		return false
	}
	for _, c := range t {
		if c < '0' || c > '9' {
			return false
		}
	}
	return true
}

// topArgs splits "(op a b c)" into [op a b c] at nesting depth 1.
func topArgs(s string) []string {
	if len(s) < 2 || s[0] != '(' || s[len(s)-1] != ')' {
		return nil
	}
	body := s[1 : len(s)-1]
	var out []string
	depth, start, inBar := 0, -1, false
	for i := 0; i < len(body); i++ {
		c := body[i]
		if inBar {
			if c == '|' {
				inBar = false
			}
			continue
		}
		switch c {
		case '|':
			inBar = true
			if start < 0 {
				start = i
			}
		case '(':
			if depth == 0 && start < 0 {
				start = i
			}
			depth++
		case ')':
			depth--
		case ' ', '\n', '\t':
			if depth == 0 && start >= 0 {
				out = append(out, body[start:i])
				start = -1
			}
		default:
			if start < 0 {
				start = i
			}
		}
	}
	if start >= 0 {
		out = append(out, body[start:])
	}
	return out
}
func mkStore(a, i, v string) string { return sx("store", a, i, v) }

// ---------------------------------------------------------------------------
// Solver results

type Verdict int

const (
	Unsat Verdict = iota
	Sat
	Unknown
)

func (v Verdict) String() string {
	switch v {
	case Unsat:
		return "unsat"
	case Sat:
		return "sat"
	}
	return "unknown"
}

type SolveResult struct {
	Verdict Verdict
	Solver  string
	Time    float64
	Model   string // raw model / get-value output when sat
	Raw     string
}

type solverSpec struct {
	name string
	argv func(timeoutMs int) []string
	// transforms the query text for this solver (e.g. cvc5 needs set-logic ALL)
	prep func(q string) string
}

var solvers = []solverSpec{
	{"z3-5.1.0", func(t int) []string { return []string{"z3-new", "-in", fmt.Sprintf("-t:%d", t)} }, nil},
	{"cvc5-1.0", func(t int) []string {
		return []string{"cvc5", "--lang=smt2", fmt.Sprintf("--tlimit-per=%d", t), "--incremental", "--produce-models", "--fp-exp"}
	}, func(q string) string { return "(set-logic ALL)\n" + q }},
	{"z3-4.8.12", func(t int) []string { return []string{"z3", "-in", fmt.Sprintf("-t:%d", t)} }, nil},
	{"z3-5.1.0-ematch", func(t int) []string {
		return []string{"z3-new", "-in", fmt.Sprintf("-t:%d", t), "smt.mbqi=false", "smt.auto_config=false"}
	}, nil},
}

// runSolver runs one standalone query (full script, ending in check-sat and optional
// get-value) on one solver.
func runSolver(ctx context.Context, s solverSpec, script string, timeoutMs int) SolveResult {
	t0 := time.Now()
	q := script
	if s.prep != nil {
		q = s.prep(q)
	}
	cctx, cancel := context.WithTimeout(ctx, time.Duration(timeoutMs+3000)*time.Millisecond)
	defer cancel()
	cmd := exec.CommandContext(cctx, s.argv(timeoutMs)[0], s.argv(timeoutMs)[1:]...)
	cmd.Stdin = strings.NewReader(q)
	var out bytes.Buffer
	cmd.Stdout = &out
	cmd.Stderr = &out
	_ = cmd.Run()
	res := SolveResult{Solver: s.name, Time: time.Since(t0).Seconds(), Raw: out.String()}
	first := ""
	rest := ""
	for i, ln := range strings.Split(out.String(), "\n") {
		ln = strings.TrimSpace(ln)
		if ln == "" {
			continue
		}
		if ln == "sat" || ln == "unsat" || ln == "unknown" || ln == "timeout" {
			first = ln
			rest = strings.Join(strings.Split(out.String(), "\n")[i+1:], "\n")
			break
		}
	}
	switch first {
	case "unsat":
		res.Verdict = Unsat
	case "sat":
		res.Verdict = Sat
		res.Model = rest
	default:
		res.Verdict = Unknown
	}
	return res
}

// raceSolvers runs the script on all solvers in parallel and returns the first decisive
// answer (sat/unsat); Unknown if none decides.
func raceSolvers(script string, timeoutMs int, which []int) SolveResult {
	ctx, cancel := context.WithCancel(context.Background())
	defer cancel()
	ch := make(chan SolveResult, len(which))
	for _, i := range which {
		go func(s solverSpec) { ch <- runSolver(ctx, s, script, timeoutMs) }(solvers[i])
	}
	var last SolveResult
	last.Verdict = Unknown
	var tried []string
	for range which {
		r := <-ch
		tried = append(tried, fmt.Sprintf("%s:%s:%.2fs", r.Solver, r.Verdict, r.Time))
		if r.Verdict != Unknown {
			return r
		}
		last = r
	}
	last.Solver = strings.Join(tried, ",")
	return last
}

// ---------------------------------------------------------------------------
// Incremental session (z3-new -in). Used per function: declarations and assumptions
// are asserted as they are produced; each obligation is checked in a push/pop frame.

type Session struct {
	mu      sync.Mutex
	cmd     *exec.Cmd
	in      io.WriteCloser
	out     *bufio.Reader
	log     strings.Builder // everything sent at level 0 (for standalone re-runs)
	timeout int
	dead    bool
}

func newSession(timeoutMs int) (*Session, error) {
	s := &Session{timeout: timeoutMs, dead: true}
	s.send0(fmt.Sprintf("(set-option :timeout %d)\n", timeoutMs))
	// element addressing (see ixTerm): ix(o, i) is o + i
	s.send0("(declare-fun ix (Int Int) Int)\n(assert (forall ((|$o| Int) (|$i| Int)) (! (= (ix |$o| |$i|) (+ |$o| |$i|)) :pattern ((ix |$o| |$i|)))))\n")
	return s, nil
}

func (s *Session) send0(txt string) {
	s.log.WriteString(txt)
}

// Assert adds a permanent (level 0) command: declaration or assertion.
func (s *Session) Cmd(txt string) {
	s.send0(txt + "\n")
}

func (s *Session) Prefix() string { return s.log.String() }

func (s *Session) Close() {
	if s.in != nil {
		io.WriteString(s.in, "(exit)\n")
		s.in.Close()
	}
	if s.cmd != nil {
		done := make(chan struct{})
		go func() { s.cmd.Wait(); close(done) }()
		select {
		case <-done:
		case <-time.After(2 * time.Second):
			s.cmd.Process.Kill()
		}
	}
}

func (s *Session) readSexprOrLine() string {
	// reads one answer: either a bare word line or a balanced s-expression
	var sb strings.Builder
	depth := 0
	started := false
	for {
		line, err := s.out.ReadString('\n')
		if err != nil {
			s.dead = true
			return sb.String()
		}
		if !started && strings.TrimSpace(line) == "" {
			continue
		}
		started = true
		sb.WriteString(line)
		inStr := false
		for _, c := range line {
			switch {
			case c == '"':
				inStr = !inStr
			case inStr:
			case c == '(':
				depth++
			case c == ')':
				depth--
			}
		}
		if depth <= 0 {
			return sb.String()
		}
	}
}

// Check checks satisfiability of (level-0 assertions ∧ extra) and optionally evaluates
// getValues on sat.
func (s *Session) Check(extra []string, getValues []string) SolveResult {
	return s.CheckT(extra, getValues, 0)
}

// CheckT is Check with a one-off timeout (ms; 0 = the session default).
func (s *Session) CheckT(extra []string, getValues []string, timeoutMs int) SolveResult {
	t0 := time.Now()
	if s.dead {
		return SolveResult{Verdict: Unknown, Solver: "z3-5.1.0(dead)"}
	}
	var q strings.Builder
	if timeoutMs > 0 {
		q.WriteString(fmt.Sprintf("(set-option :timeout %d)\n", timeoutMs))
		defer func() { io.WriteString(s.in, fmt.Sprintf("(set-option :timeout %d)\n", s.timeout)) }()
	}
	q.WriteString("(push 1)\n")
	for _, e := range extra {
		q.WriteString("(assert " + e + ")\n")
	}
	q.WriteString("(check-sat)\n")
	if _, err := io.WriteString(s.in, q.String()); err != nil {
		s.dead = true
		return SolveResult{Verdict: Unknown, Solver: "z3-5.1.0(dead)"}
	}
	ans := strings.TrimSpace(s.readSexprOrLine())
	res := SolveResult{Solver: "z3-5.1.0", Raw: ans}
	switch ans {
	case "unsat":
		res.Verdict = Unsat
	case "sat":
		res.Verdict = Sat
		if len(getValues) > 0 {
			io.WriteString(s.in, "(get-value ("+strings.Join(getValues, " ")+"))\n")
			res.Model = s.readSexprOrLine()
		}
	default:
		res.Verdict = Unknown
	}
	io.WriteString(s.in, "(pop 1)\n")
	res.Time = time.Since(t0).Seconds()
	return res
}

var interpretedHeads = map[string]bool{"and": true, "or": true, "not": true, "ite": true, "=": true, "=>": true, "<": true, "<=": true,
	">": true, ">=": true, "+": true, "-": true, "*": true, "distinct": true, "let": true}

// patternTerms turns a trigger term into terms usable in an SMT :pattern: a term whose head
// is a connective or arithmetic operator cannot be matched, so it is replaced by its maximal
// sub-terms with uninterpreted heads (select, functions) that mention a bound variable.
func patternTerms(t string) []string {
	args := topArgs(t)
	if len(args) == 0 || !interpretedHeads[args[0]] {
		return []string{t}
	}
	var out []string
	seen := map[string]bool{}
	for _, a := range args[1:] {
		if !strings.Contains(a, "|$") || !strings.HasPrefix(a, "(") {
			continue
		}
		for _, p := range patternTerms(a) {
			if !seen[p] {
				seen[p] = true
				out = append(out, p)
			}
		}
	}
	return out
}

// iteSubterms returns the maximal (ite ...) sub-terms of t that mention no bound variable.
func iteSubterms(t string) []string {
	var out []string
	var walk func(t string)
	walk = func(t string) {
		if !strings.HasPrefix(t, "(") {
			return
		}
		if strings.HasPrefix(t, "(ite ") && !strings.Contains(t, "|$") {
			out = append(out, t)
			return
		}
		for _, a := range topArgs(t) {
			walk(a)
		}
	}
	walk(t)
	return out
}

// stripBoundItes makes a trigger term acceptable as a pattern: a conditional sub-term that
// mentions a bound variable (e.g. a map lookup `(ite present value zero)`) is replaced by its
// branch that mentions the bound variable (triggers need not be equivalent to the term, they
// only select instances).
func stripBoundItes(t string) string {
	if !strings.Contains(t, "(ite ") || !strings.HasPrefix(t, "(") {
		return t
	}
	a := topArgs(t)
	if len(a) == 0 {
		return t
	}
	if a[0] == "ite" && len(a) == 4 && strings.Contains(t, "|$") {
		if strings.Contains(a[2], "|$") {
			return stripBoundItes(a[2])
		}
		if strings.Contains(a[3], "|$") {
			return stripBoundItes(a[3])
		}
		return t
	}
	out := make([]string, len(a))
	out[0] = a[0]
	for i := 1; i < len(a); i++ {
		out[i] = stripBoundItes(a[i])
	}
	return "(" + strings.Join(out, " ") + ")"
}
