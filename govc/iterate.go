package main

// Iterator interface contracts: an interface method whose contract carries
//
//	opt iterates <param> :: <membership predicate over `it`>
//
// calls the function value passed as <param> zero or more times, each time with an element
// `it` satisfying the predicate, and does nothing else. When the argument is a closure of the
// function under verification, the call is treated like a loop whose body is the closure: the
// caller's contract supplies `loop iter<k> invariant` clauses (k-th such call in the
// function), the state the closure may write is found by dry runs and havocked, the invariants
// are checked before the first call (inv-init) and after one arbitrary call (inv-step), and
// execution continues from an arbitrary number of calls (invariants assumed). The number of
// calls and completeness (every member visited) are not modelled.

import (
	"fmt"
	"go/types"
	"strings"
)

func (e *Env) iterateClosure(fr *Frame, it *Item, recv *Iface, args []Value, vars map[string]Value, pkg *types.Package, st *State) bool {
	spec := it.Opts["iterates"]
	if spec == "" {
		return false
	}
	parts := strings.SplitN(spec, "::", 2)
	if len(parts) != 2 {
		specFail("opt iterates needs <param> :: <predicate>")
	}
	pname := strings.TrimSpace(parts[0])
	fv, ok := vars[pname].(*FuncV)
	if !ok || fv.Fn == nil {
		return false
	}
	pred, err := parseSpecExpr(strings.TrimSpace(parts[1]))
	if err != nil {
		specFail("opt iterates: %v", err)
	}
	top := fr
	for top.parent != nil {
		top = top.parent
	}
	ord := 0
	if e.dry == 0 {
		ord = e.nextOrdinalIfReal("iter")
		e.iterOrd = ord
	} else {
		ord = e.iterOrd
	}
	key := fmt.Sprintf("iter%d", ord)
	invs := e.loopInvariants(fr, key)
	elemT := fv.Fn.Signature.Params().At(0).Type()
	evalInvs := func(s *State) []string {
		var out []string
		for _, c := range invs {
			out = append(out, e.evalInv(fr, c, s))
		}
		return out
	}
	// one call of the closure with an arbitrary member, from state s
	callOnce := func(s *State) {
		el := e.freshValue(elemT, "it")
		v2 := map[string]Value{}
		for k, v := range vars {
			v2[k] = v
		}
		v2["it"] = el
		ctx := &SpecCtx{e: e, st: s, vars: v2, pkg: pkg}
		e.assume(mkImp(s.pc, ctx.boolTerm(pred)))
		e.callStatic(fr, fv.Fn, fv.Bind, []Value{el}, fv.Fn.Signature.Results(), s)
	}
	if e.dry == 0 {
		for i, c := range invs {
			e.oblige("inv-init", "loop"+key+lbl(c.Label), st.pc, evalInvs(st)[i])
		}
	}
	counterAtEntry := e.counter
	snap := e.snapshot()
	discover := func(start *State) (map[string]bool, map[string][]string) {
		s := start.clone()
		e.dry++
		saveW, saveA := e.writeLog, e.allocLog
		e.writeLog, e.allocLog = map[string][]string{}, map[string]bool{}
		callOnce(s)
		wlog := e.writeLog
		e.writeLog, e.allocLog = saveW, saveA
		if saveW != nil {
			for n, rs := range wlog {
				saveW[n] = append(saveW[n], rs...)
			}
		}
		e.dry--
		mod := map[string]bool{}
		if s.base != start.base {
			for n := range e.heapSorts {
				if _, kept := s.heap[n]; !kept {
					mod[n] = true
				}
			}
		}
		for n, t := range s.heap {
			if e.heapGet(start, n, e.heapSorts[n]) != t {
				mod[n] = true
			}
		}
		return mod, wlog
	}
	modified, wlog := discover(st)
	for round := 0; round < 3; round++ {
		tent := st.clone()
		for _, n := range sortedKeys(modified) {
			tent.heap[n] = e.fresh("tv!"+n, e.heapSorts[n])
		}
		tent.next = e.fresh("tnext", sInt)
		e.assume(sx("<=", st.next, tent.next))
		for _, t := range evalInvs(tent) {
			e.assume(mkImp(tent.pc, t))
		}
		m2, w2 := discover(tent)
		before := len(modified)
		for n := range m2 {
			modified[n] = true
		}
		wlog = w2
		if len(modified) == before {
			break
		}
	}
	// havoc (partial where the closure only writes a few call-invariant references)
	e.rollback(snap)
	hv := st.clone()
	partialRefs := map[string][]string{}
	for _, n := range sortedKeys(modified) {
		old := e.heapGet(st, n, e.heapSorts[n])
		refs := dedupe(wlog[n])
		partial := len(wlog["*callee-modifies*"]) == 0 && len(refs) > 0 && len(refs) <= 4
		for _, r := range refs {
			for _, m := range symNumRe.FindAllStringSubmatch(r, -1) {
				if atoi(m[1]) > counterAtEntry {
					partial = false
				}
			}
		}
		if partial {
			t := old
			inner := strings.TrimSuffix(strings.TrimPrefix(e.heapSorts[n], "(Array Int "), ")")
			for _, r := range refs {
				t = mkStore(t, r, e.fresh("hv@"+n, inner))
			}
			hv.heap[n] = e.maybeNameForce(t, e.heapSorts[n], "hvp")
			partialRefs[n] = refs
			continue
		}
		hv.heap[n] = e.fresh("hv!"+n, e.heapSorts[n])
	}
	nx := e.fresh("next", sInt)
	e.assume(sx("<=", st.next, nx))
	hv.next = nx
	for _, t := range evalInvs(hv) {
		e.assume(mkImp(hv.pc, t))
	}
	if e.dry == 0 {
		e.loopNotes = append(e.loopNotes, fmt.Sprintf("iterator call %s (%s) in %s: %d invariant clause(s); havocs %s", key, it.Name, fr.fn.Name(), len(invs), strings.Join(sortedKeys(modified), ", ")))
	}
	// one arbitrary call, checked
	body := hv.clone()
	callOnce(body)
	if e.dry == 0 {
		for i, c := range invs {
			e.oblige("inv-step", "loop"+key+lbl(c.Label), body.pc, evalInvs(body)[i])
		}
		pk := map[string]bool{}
		for n := range partialRefs {
			pk[n] = true
		}
		for _, n := range sortedKeys(pk) {
			var excl []string
			for _, r := range partialRefs[n] {
				excl = append(excl, mkNot(mkEq("|$r|", r)))
			}
			after := e.heapGet(body, n, e.heapSorts[n])
			before := e.heapGet(hv, n, e.heapSorts[n])
			if after != before {
				e.oblige("inv-step", "loop"+key+":auto-writes:"+n, body.pc,
					fmt.Sprintf("(forall ((|$r| Int)) (=> %s (= (select %s |$r|) (select %s |$r|))))", mkAnd(excl...), after, before))
			}
		}
		for n := range body.heap {
			if !modified[n] && e.heapGet(body, n, e.heapSorts[n]) != e.heapGet(hv, n, e.heapSorts[n]) {
				e.oblige("inv-step", "loop"+key+":auto-modifies:"+n, body.pc, tFalse)
			}
		}
	}
	// continue from an arbitrary number of calls
	*st = *hv
	_ = top
	return true
}
