package consensus_test

import (
	"testing"

	"github.com/relab/hotstuff"
	"github.com/relab/hotstuff/internal/proto/clientpb"
	"github.com/relab/hotstuff/internal/testutil"
	"github.com/relab/hotstuff/security/crypto"
)

// Witness for the known finding on Voter.Verify (obligation extends-certified): a replica
// votes for a view-2 block whose parent is a view-1 block while its QC certifies genesis.
func TestGovcFindingVoteParentNotCertified(t *testing.T) {
	set := testutil.NewEssentialsSet(t, 4, crypto.NameECDSA)
	subject := set[0]
	voter := wireUpVoter(t, subject)
	g := hotstuff.GetGenesis()
	gqc := testutil.CreateQC(t, g, set.Signers()...)
	batch := func(seq uint64) *clientpb.Batch {
		return &clientpb.Batch{Commands: []*clientpb.Command{{ClientID: 1, SequenceNumber: seq}}}
	}
	a := hotstuff.NewBlock(g.Hash(), gqc, batch(1), 1, 2)
	pa := hotstuff.ProposeMsg{ID: 2, Block: a}
	if err := voter.Verify(&pa); err != nil {
		t.Fatalf("setup: %v", err)
	}
	if err := voter.OnValidPropose(&pa); err != nil {
		t.Fatalf("setup: %v", err)
	}
	// view 2, parent a (view 1), but the certificate still certifies genesis
	b := hotstuff.NewBlock(a.Hash(), gqc, batch(2), 2, 2)
	pb := hotstuff.ProposeMsg{ID: 2, Block: b}
	if err := voter.Verify(&pb); err == nil {
		t.Fatalf("Verify accepted a block whose parent (%.6s, view 1) is not the block its QC certifies (genesis)", a.Hash().String())
	}
}
