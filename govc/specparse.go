package main

// Contract files and the spec-expression parser. Contracts are `//@` comment lines in
// comment-only files `contracts_verif.go` (build tag verif) inside /repo, keyed by
// function. See DESIGN.md 2.5.

import (
	"fmt"
	"os"
	"path/filepath"
	"regexp"
	"strconv"
	"strings"
)

type Param struct {
	Name    string
	TypeStr string
}

// SExpr is a spec expression.
type SExpr struct {
	Op    string // ident num str call sel index unop binop ite forall exists zero slice
	Name  string // ident name, field name, operator, callee name
	Args  []*SExpr
	Bound []Param
	Trig  [][]*SExpr // optional triggers for quantifiers
	Pos   int
}

type Clause struct {
	Kind  string // requires ensures modifies invariant decreases
	Label string
	Expr  *SExpr
	Exprs []*SExpr // modifies list
	Loop  string   // loop key for invariants ("0", "RangeWhile.1")
	Text  string
}

type LemmaStep struct {
	Kind string // assert, use, if
	Expr *SExpr
	Name string
	Args []*SExpr
	Then []*LemmaStep
	Else []*LemmaStep
}

// Item is a top-level contract item.
type Item struct {
	Kind     string // func, pure, pred, lemma, interface, axiom
	Name     string // function key, e.g. "(*queue).push", "ChooseRoundRobin"
	Params   []Param
	Result   string // result type of pure functions
	Body     *SExpr // pure/pred body
	Clauses  []*Clause
	Property string
	Mode     string
	Inline   []string
	Uses     []string // lemmas assumed (quantified) in this function
	UseAt    []*UseAt
	Steps    []*LemmaStep
	Trusted  bool
	Decr     *SExpr
	Pkg      string
	File     string
	Line     int
	Cases    []*SExpr
	NoPanic  bool // only the panic obligations (and loops) — "sweep"
	Opts     map[string]string
	Triggers [][]*SExpr
	Emits    []*Emit
	GhostAt  []*GhostAt
}

// Emit: a call of the function appends a record to a ghost trace channel.
// GhostAt is a ghost emission attached to instructions of the function under verification.
type GhostAt struct {
	Kind       string // send | mapupdate | call | go
	Arg        string
	Emit       *Emit
	Assume     *SExpr
	AssumeText string
	Assert     bool // `assert`: proved at the program point (one obligation), then assumed
}

type Emit struct {
	Ch   string
	Args []*SExpr
}

// UseAt instantiates a lemma at a program point.
type UseAt struct {
	Where string // entry, return, loop <k> head, loop <k> back
	Name  string
	Args  []*SExpr
}

var itemKW = map[string]bool{"func": true, "pure": true, "pred": true, "lemma": true, "interface": true, "axiom": true, "census": true, "preserveset": true}
var clauseKW = map[string]bool{"requires": true, "ensures": true, "modifies": true, "loop": true, "decreases": true,
	"mode": true, "inline": true, "uses": true, "use": true, "property": true, "trusted": true, "cases": true, "proof": true,
	"nopanic": true, "opt": true, "trigger": true, "emits": true, "preserves": true, "ghost": true}

// parseContractFile reads the //@ lines of one file into items.
func parseContractFile(path, pkgPath string) ([]*Item, error) {
	data, err := os.ReadFile(path)
	if err != nil {
		return nil, err
	}
	type ln struct {
		txt string
		no  int
	}
	var lines []ln
	for i, l := range strings.Split(string(data), "\n") {
		t := strings.TrimSpace(l)
		if !strings.HasPrefix(t, "//@") {
			continue
		}
		t = strings.TrimSpace(t[3:])
		if t == "" || strings.HasPrefix(t, "#") {
			continue
		}
		// strip trailing comments introduced by " // "
		if k := strings.Index(t, " // "); k >= 0 {
			t = strings.TrimSpace(t[:k])
		}
		lines = append(lines, ln{t, i + 1})
	}
	// group into logical clauses: a line starting with a keyword starts a new clause
	var groups []ln
	for _, l := range lines {
		first := l.txt
		if k := strings.IndexAny(first, " \t("); k >= 0 {
			first = first[:k]
		}
		if itemKW[first] || clauseKW[first] {
			groups = append(groups, l)
		} else if len(groups) > 0 {
			groups[len(groups)-1].txt += " " + l.txt
		} else {
			return nil, fmt.Errorf("%s:%d: stray contract line", path, l.no)
		}
	}
	var items []*Item
	var cur *Item
	for _, g := range groups {
		first := g.txt
		rest := ""
		if k := strings.IndexAny(first, " \t"); k >= 0 {
			rest = strings.TrimSpace(first[k:])
			first = first[:k]
		}
		fail := func(err error) error { return fmt.Errorf("%s:%d: %v (in %q)", path, g.no, err, g.txt) }
		if itemKW[first] {
			it := &Item{Kind: first, Pkg: pkgPath, File: path, Line: g.no, Opts: map[string]string{}}
			switch first {
			case "func", "interface":
				// func <key> [property Cxx]
				f := strings.Fields(rest)
				if len(f) == 0 {
					return nil, fail(fmt.Errorf("missing function key"))
				}
				it.Name = f[0]
				for i := 1; i+1 < len(f); i += 2 {
					if f[i] == "property" {
						it.Property = f[i+1]
					}
				}
			case "pure", "pred":
				// pure func name(params) T = body    |  pred name(params) = body
				r := rest
				if first == "pure" {
					r = strings.TrimSpace(strings.TrimPrefix(r, "func"))
				}
				if err := parsePureHeader(it, r); err != nil {
					return nil, fail(err)
				}
				if first == "pred" {
					it.Result = "bool"
				}
				it.Kind = "pure"
			case "lemma":
				op := strings.Index(rest, "(")
				cl := matchParen(rest, op)
				if op < 0 || cl < 0 {
					return nil, fail(fmt.Errorf("bad lemma header"))
				}
				it.Name = strings.TrimSpace(rest[:op])
				ps, err := parseParams(rest[op+1 : cl])
				if err != nil {
					return nil, fail(err)
				}
				it.Params = ps
				f := strings.Fields(rest[cl+1:])
				for i := 0; i+1 < len(f); i += 2 {
					if f[i] == "property" {
						it.Property = f[i+1]
					}
				}
			case "preserveset":
				// preserveset <name> = T1, T2, ...
				f := strings.SplitN(rest, "=", 2)
				if len(f) != 2 {
					return nil, fail(fmt.Errorf("expected: preserveset <name> = types"))
				}
				it.Name = strings.TrimSpace(f[0])
				it.Opts["list"] = strings.TrimSpace(f[1])
			case "census":
				// census <Cxx[,Cyy]> calls|writes <target> within <f1>, <f2>, ...
				f := strings.Fields(rest)
				k := strings.Index(rest, " within ")
				if len(f) < 4 || k < 0 || (f[1] != "calls" && f[1] != "writes") {
					return nil, fail(fmt.Errorf("expected: census <prop> calls|writes <target> within <functions>"))
				}
				it.Property = f[0]
				it.Opts["census-kind"] = f[1]
				it.Opts["census-target"] = f[2]
				it.Opts["census-within"] = strings.TrimSpace(rest[k+8:])
				it.Name = "census:" + f[1] + ":" + f[2]
			case "axiom":
				f := strings.SplitN(rest, " ", 2)
				it.Name = f[0]
				if len(f) < 2 {
					return nil, fail(fmt.Errorf("axiom needs a body"))
				}
				x, err := parseSpecExpr(f[1])
				if err != nil {
					return nil, fail(err)
				}
				it.Body = x
			}
			items = append(items, it)
			cur = it
			continue
		}
		if cur == nil {
			return nil, fail(fmt.Errorf("clause outside item"))
		}
		switch first {
		case "requires", "ensures":
			c := &Clause{Kind: first, Text: rest}
			r := rest
			if strings.HasPrefix(r, "[") {
				k := strings.Index(r, "]")
				c.Label = strings.ReplaceAll(strings.TrimSpace(r[1:k]), " ", "-")
				r = strings.TrimSpace(r[k+1:])
			}
			x, err := parseSpecExpr(r)
			if err != nil {
				return nil, fail(err)
			}
			c.Expr = x
			cur.Clauses = append(cur.Clauses, c)
		case "modifies":
			c := &Clause{Kind: "modifies", Text: rest}
			if strings.TrimSpace(rest) != "nothing" {
				for _, part := range splitTop(rest, ',') {
					x, err := parseSpecExpr(part)
					if err != nil {
						return nil, fail(err)
					}
					c.Exprs = append(c.Exprs, x)
				}
			}
			cur.Clauses = append(cur.Clauses, c)
		case "loop":
			// loop <key> invariant [label] e   |  loop <key> decreases e
			f := strings.SplitN(rest, " ", 3)
			if len(f) < 3 || (f[1] != "invariant" && f[1] != "decreases") {
				return nil, fail(fmt.Errorf("expected: loop <k> invariant <e>"))
			}
			c := &Clause{Kind: f[1], Loop: f[0], Text: f[2]}
			r := strings.TrimSpace(f[2])
			if strings.HasPrefix(r, "[") {
				k := strings.Index(r, "]")
				c.Label = strings.ReplaceAll(strings.TrimSpace(r[1:k]), " ", "-")
				r = strings.TrimSpace(r[k+1:])
			}
			x, err := parseSpecExpr(r)
			if err != nil {
				return nil, fail(err)
			}
			c.Expr = x
			cur.Clauses = append(cur.Clauses, c)
		case "decreases":
			x, err := parseSpecExpr(rest)
			if err != nil {
				return nil, fail(err)
			}
			cur.Decr = x
		case "mode":
			cur.Mode = strings.TrimSpace(rest)
		case "inline":
			for _, p := range splitTop(rest, ',') {
				cur.Inline = append(cur.Inline, strings.TrimSpace(p))
			}
		case "uses":
			for _, p := range splitTop(rest, ',') {
				cur.Uses = append(cur.Uses, strings.TrimSpace(p))
			}
		case "use":
			// use <where> :: lemma(args)     where = entry | return | loop <k> head | loop <k> back
			k := strings.Index(rest, "::")
			if k < 0 {
				return nil, fail(fmt.Errorf("expected: use <where> :: lemma(args)"))
			}
			x, err := parseSpecExpr(rest[k+2:])
			if err == nil && x.Op == "mcall" {
				x = &SExpr{Op: "call", Name: x.Name, Args: x.Args[1:]}
			}
			if err != nil || x.Op != "call" {
				return nil, fail(fmt.Errorf("use needs a lemma call: %v", err))
			}
			cur.UseAt = append(cur.UseAt, &UseAt{Where: strings.Join(strings.Fields(rest[:k]), " "), Name: x.Name, Args: x.Args})
		case "ghost":
			if strings.HasPrefix(rest, "at ") {
				// ghost at <anchor> :: emit ch(args): ghost instrumentation of the function under
				// verification. Anchors: `send` (channel send; op0 = channel, op1 = value),
				// `mapupdate <field>` (m[k] = v on the map held in that field; op0 = key, op1 = value),
				// `call <name>` (call of a function or method with that name; op0.. = arguments,
				// receiver first)
				k := strings.Index(rest, "::")
				if k < 0 {
					return nil, fail(fmt.Errorf("ghost at needs <anchor> :: emit ch(args)"))
				}
				anchor := strings.Fields(rest[3:k])
				body := strings.TrimSpace(rest[k+2:])
				if strings.HasPrefix(body, "assert ") && len(anchor) > 0 {
					// ghost at <anchor> :: assert <expr> — a proof hint: an obligation at that program
					// point, assumed afterwards (nothing is trusted)
					x, err := parseSpecExpr(strings.TrimSpace(body[7:]))
					if err != nil {
						return nil, fail(err)
					}
					g := &GhostAt{Kind: anchor[0], Assume: x, AssumeText: strings.TrimSpace(body[7:]), Assert: true}
					if len(anchor) > 1 {
						g.Arg = anchor[1]
					}
					cur.GhostAt = append(cur.GhostAt, g)
					break
				}
				if strings.HasPrefix(body, "assume ") && len(anchor) > 0 {
					// ghost at <anchor> :: assume <expr> — an explicit, reported assumption made at
					// that program point (listed among the trusted base of the evidence)
					x, err := parseSpecExpr(strings.TrimSpace(body[7:]))
					if err != nil {
						return nil, fail(err)
					}
					g := &GhostAt{Kind: anchor[0], Assume: x, AssumeText: strings.TrimSpace(body[7:])}
					if len(anchor) > 1 {
						g.Arg = anchor[1]
					}
					cur.GhostAt = append(cur.GhostAt, g)
					break
				}
				if !strings.HasPrefix(body, "emit ") || len(anchor) == 0 {
					return nil, fail(fmt.Errorf("ghost at needs <anchor> :: emit ch(args)"))
				}
				x, err := parseSpecExpr(strings.TrimSpace(body[5:]))
				if err != nil || x.Op != "call" {
					return nil, fail(fmt.Errorf("ghost at: emit needs channel(args): %v", err))
				}
				g := &GhostAt{Kind: anchor[0], Emit: &Emit{Ch: x.Name, Args: x.Args}}
				if len(anchor) > 1 {
					g.Arg = anchor[1]
				}
				cur.GhostAt = append(cur.GhostAt, g)
				break
			}
			// ghost ensures e : assumed at call sites, not checked in the callee. Only for facts
			// that merely NAME an outcome through an otherwise unconstrained spec predicate.
			r := strings.TrimSpace(strings.TrimPrefix(rest, "ensures"))
			x, err := parseSpecExpr(r)
			if err != nil {
				return nil, fail(err)
			}
			cur.Clauses = append(cur.Clauses, &Clause{Kind: "ghostensures", Expr: x, Text: r})
		case "preserves":
			// unknown code behind this contract may change anything except the fields of the listed struct types
			cur.Opts["preserves"] = rest
		case "emits":
			x, err := parseSpecExpr(rest)
			if err != nil || x.Op != "call" {
				return nil, fail(fmt.Errorf("emits needs channel(args): %v", err))
			}
			cur.Emits = append(cur.Emits, &Emit{Ch: x.Name, Args: x.Args})
		case "property":
			cur.Property = strings.TrimSpace(rest)
		case "trusted":
			cur.Trusted = true
			cur.Opts["trusted-reason"] = rest
		case "nopanic":
			cur.NoPanic = true
		case "opt":
			f := strings.SplitN(rest, " ", 2)
			if len(f) == 2 {
				cur.Opts[f[0]] = f[1]
			} else {
				cur.Opts[f[0]] = "true"
			}
		case "cases":
			for _, part := range expandCases(splitTop(rest, ';')) {
				x, err := parseSpecExpr(part)
				if err != nil {
					return nil, fail(err)
				}
				cur.Cases = append(cur.Cases, x)
			}
		case "trigger":
			var tr []*SExpr
			for _, part := range splitTop(rest, ',') {
				x, err := parseSpecExpr(part)
				if err != nil {
					return nil, fail(err)
				}
				tr = append(tr, x)
			}
			cur.Triggers = append(cur.Triggers, tr)
		case "proof":
			steps, err := parseLemmaSteps(rest)
			if err != nil {
				return nil, fail(err)
			}
			cur.Steps = steps
		}
	}
	return items, nil
}

func parsePureHeader(it *Item, r string) error {
	op := strings.Index(r, "(")
	cl := matchParen(r, op)
	if op < 0 || cl < 0 {
		return fmt.Errorf("bad pure function header")
	}
	it.Name = strings.TrimSpace(r[:op])
	ps, err := parseParams(r[op+1 : cl])
	if err != nil {
		return err
	}
	it.Params = ps
	after := r[cl+1:]
	eq := strings.Index(after, "=")
	if eq < 0 {
		// uninterpreted spec function
		it.Result = strings.TrimSpace(after)
		return nil
	}
	it.Result = strings.TrimSpace(after[:eq])
	body := after[eq+1:]
	// optional trailing "decreases e"
	if k := strings.LastIndex(body, " decreases "); k >= 0 {
		d, err := parseSpecExpr(body[k+11:])
		if err != nil {
			return err
		}
		it.Decr = d
		body = body[:k]
	}
	x, err := parseSpecExpr(body)
	if err != nil {
		return err
	}
	it.Body = x
	return nil
}

func matchParen(s string, open int) int {
	if open < 0 {
		return -1
	}
	d := 0
	for i := open; i < len(s); i++ {
		switch s[i] {
		case '(':
			d++
		case ')':
			d--
			if d == 0 {
				return i
			}
		}
	}
	return -1
}

func splitTop(s string, sep byte) []string {
	var out []string
	d := 0
	last := 0
	for i := 0; i < len(s); i++ {
		switch s[i] {
		case '(', '[', '{':
			d++
		case ')', ']', '}':
			d--
		default:
			if s[i] == sep && d == 0 {
				out = append(out, strings.TrimSpace(s[last:i]))
				last = i + 1
			}
		}
	}
	if strings.TrimSpace(s[last:]) != "" {
		out = append(out, strings.TrimSpace(s[last:]))
	}
	return out
}

func parseParams(s string) ([]Param, error) {
	var out []Param
	for _, p := range splitTop(s, ',') {
		f := strings.SplitN(strings.TrimSpace(p), " ", 2)
		if len(f) != 2 {
			return nil, fmt.Errorf("bad parameter %q", p)
		}
		out = append(out, Param{f[0], strings.TrimSpace(f[1])})
	}
	return out, nil
}

// lemma proof steps:  steps := step (';' step)* ; step := 'assert' e | 'use' name(args) | 'if' e '{' steps '}' ['else' '{' steps '}']
func parseLemmaSteps(s string) ([]*LemmaStep, error) {
	s = strings.TrimSpace(s)
	var out []*LemmaStep
	for s != "" {
		s = strings.TrimLeft(s, "; \t")
		if s == "" {
			break
		}
		switch {
		case strings.HasPrefix(s, "assert "):
			end := topIndex(s, ';')
			x, err := parseSpecExpr(s[7:end])
			if err != nil {
				return nil, err
			}
			out = append(out, &LemmaStep{Kind: "assert", Expr: x})
			s = s[end:]
		case strings.HasPrefix(s, "unfold "):
			end := topIndex(s, ';')
			x, err := parseSpecExpr(s[7:end])
			if err != nil {
				return nil, err
			}
			out = append(out, &LemmaStep{Kind: "unfold", Expr: x})
			s = s[end:]
		case strings.HasPrefix(s, "use "):
			end := topIndex(s, ';')
			x, err := parseSpecExpr(s[4:end])
			if err == nil && x.Op == "mcall" {
				x = &SExpr{Op: "call", Name: x.Name, Args: x.Args[1:]}
			}
			if err != nil || x.Op != "call" {
				return nil, fmt.Errorf("use needs a lemma call")
			}
			out = append(out, &LemmaStep{Kind: "use", Name: x.Name, Args: x.Args})
			s = s[end:]
		case strings.HasPrefix(s, "if "):
			ob := strings.Index(s, "{")
			if ob < 0 {
				return nil, fmt.Errorf("if without {")
			}
			cb := matchBrace(s, ob)
			cond, err := parseSpecExpr(s[3:ob])
			if err != nil {
				return nil, err
			}
			th, err := parseLemmaSteps(s[ob+1 : cb])
			if err != nil {
				return nil, err
			}
			st := &LemmaStep{Kind: "if", Expr: cond, Then: th}
			s = strings.TrimSpace(s[cb+1:])
			if strings.HasPrefix(s, "else") {
				ob := strings.Index(s, "{")
				cb := matchBrace(s, ob)
				el, err := parseLemmaSteps(s[ob+1 : cb])
				if err != nil {
					return nil, err
				}
				st.Else = el
				s = s[cb+1:]
			}
			out = append(out, st)
		default:
			return nil, fmt.Errorf("bad proof step near %q", s)
		}
	}
	return out, nil
}

func matchBrace(s string, open int) int {
	d := 0
	for i := open; i < len(s); i++ {
		switch s[i] {
		case '{':
			d++
		case '}':
			d--
			if d == 0 {
				return i
			}
		}
	}
	return len(s) - 1
}

func topIndex(s string, sep byte) int {
	d := 0
	for i := 0; i < len(s); i++ {
		switch s[i] {
		case '(', '[', '{':
			d++
		case ')', ']', '}':
			d--
		default:
			if s[i] == sep && d == 0 {
				return i
			}
		}
	}
	return len(s)
}

// ---------------------------------------------------------------------------
// expression parser

type tok struct {
	k string // id num str op eof
	s string
	p int
}

var tokRe = regexp.MustCompile(`^(\s+|[A-Za-z_][A-Za-z0-9_]*(?:@[A-Za-z0-9_.]+)?|[0-9][0-9_xXa-fA-F]*|"[^"]*"|<==>|==>|::|:=|&&|\|\||==|!=|<=|>=|<<|>>|&\^|[-+*/%&|^!<>=()\[\]{}.,:?;#@])`)

func lex(s string) ([]tok, error) {
	var out []tok
	p := 0
	for p < len(s) {
		m := tokRe.FindString(s[p:])
		if m == "" {
			return nil, fmt.Errorf("bad character %q at %d", s[p], p)
		}
		c := m[0]
		switch {
		case c == ' ' || c == '\t' || c == '\n' || c == '\r':
		case c == '"':
			out = append(out, tok{"str", m[1 : len(m)-1], p})
		case c >= '0' && c <= '9':
			out = append(out, tok{"num", m, p})
		case c == '_' || (c >= 'a' && c <= 'z') || (c >= 'A' && c <= 'Z'):
			out = append(out, tok{"id", m, p})
		default:
			out = append(out, tok{"op", m, p})
		}
		p += len(m)
	}
	out = append(out, tok{"eof", "", p})
	return out, nil
}

type sparser struct {
	t []tok
	i int
	s string
}

func parseSpecExpr(s string) (*SExpr, error) {
	ts, err := lex(s)
	if err != nil {
		return nil, err
	}
	p := &sparser{t: ts, s: s}
	var x *SExpr
	err = func() (err error) {
		defer func() {
			if r := recover(); r != nil {
				if pe, ok := r.(parseErr); ok {
					err = pe
					return
				}
				panic(r)
			}
		}()
		x = p.expr()
		if p.peek().k != "eof" {
			p.fail("unexpected %q", p.peek().s)
		}
		return nil
	}()
	return x, err
}

type parseErr struct{ error }

func (p *sparser) fail(f string, a ...any) {
	panic(parseErr{fmt.Errorf("spec syntax: "+f+" at %d in %q", append(a, p.peek().p, p.s)...)})
}
func (p *sparser) peek() tok { return p.t[p.i] }
func (p *sparser) next() tok { t := p.t[p.i]; p.i++; return t }
func (p *sparser) isOp(s string) bool {
	return p.peek().k == "op" && p.peek().s == s
}
func (p *sparser) isID(s string) bool {
	return p.peek().k == "id" && p.peek().s == s
}
func (p *sparser) expect(s string) {
	if !p.isOp(s) {
		p.fail("expected %q, found %q", s, p.peek().s)
	}
	p.i++
}

func (p *sparser) expr() *SExpr {
	if p.isID("forall") || p.isID("exists") {
		op := p.next().s
		var bound []Param
		for {
			if p.peek().k != "id" {
				p.fail("expected bound variable")
			}
			name := p.next().s
			// type: tokens up to ',' or '::'
			start := p.peek().p
			d := 0
			for !(d == 0 && (p.isOp(",") || p.isOp("::"))) {
				if p.peek().k == "eof" {
					p.fail("unterminated quantifier")
				}
				if p.isOp("[") || p.isOp("(") {
					d++
				}
				if p.isOp("]") || p.isOp(")") {
					d--
				}
				p.i++
			}
			bound = append(bound, Param{name, strings.TrimSpace(p.s[start:p.peek().p])})
			if p.isOp(",") {
				p.i++
				continue
			}
			break
		}
		p.expect("::")
		var trig [][]*SExpr
		for p.isOp("{") {
			p.i++
			var tr []*SExpr
			for {
				tr = append(tr, p.ternary())
				if p.isOp(",") {
					p.i++
					continue
				}
				break
			}
			p.expect("}")
			trig = append(trig, tr)
		}
		body := p.expr()
		return &SExpr{Op: op, Bound: bound, Args: []*SExpr{body}, Trig: trig}
	}
	return p.iff()
}

func (p *sparser) iff() *SExpr {
	l := p.imp()
	for p.isOp("<==>") {
		p.i++
		r := p.imp()
		l = &SExpr{Op: "binop", Name: "<==>", Args: []*SExpr{l, r}}
	}
	return l
}

func (p *sparser) imp() *SExpr {
	l := p.ternary()
	if p.isOp("==>") {
		p.i++
		var r *SExpr
		if p.isID("forall") || p.isID("exists") {
			r = p.expr()
		} else {
			r = p.imp()
		}
		return &SExpr{Op: "binop", Name: "==>", Args: []*SExpr{l, r}}
	}
	return l
}

func (p *sparser) ternary() *SExpr {
	c := p.or()
	if p.isOp("?") {
		p.i++
		a := p.ternary()
		p.expect(":")
		b := p.ternary()
		return &SExpr{Op: "ite", Args: []*SExpr{c, a, b}}
	}
	return c
}

func (p *sparser) or() *SExpr {
	l := p.and()
	for p.isOp("||") {
		p.i++
		r := p.and()
		l = &SExpr{Op: "binop", Name: "||", Args: []*SExpr{l, r}}
	}
	return l
}

func (p *sparser) and() *SExpr {
	l := p.cmp()
	for p.isOp("&&") {
		p.i++
		var r *SExpr
		if p.isID("forall") || p.isID("exists") {
			r = p.expr()
		} else {
			r = p.cmp()
		}
		l = &SExpr{Op: "binop", Name: "&&", Args: []*SExpr{l, r}}
	}
	return l
}

func (p *sparser) cmp() *SExpr {
	l := p.add()
	for p.peek().k == "op" {
		switch p.peek().s {
		case "==", "!=", "<", "<=", ">", ">=":
			op := p.next().s
			r := p.add()
			l = &SExpr{Op: "binop", Name: op, Args: []*SExpr{l, r}}
			continue
		}
		break
	}
	return l
}

func (p *sparser) add() *SExpr {
	l := p.mul()
	for p.peek().k == "op" {
		switch p.peek().s {
		case "+", "-", "|", "^":
			op := p.next().s
			r := p.mul()
			l = &SExpr{Op: "binop", Name: op, Args: []*SExpr{l, r}}
			continue
		}
		break
	}
	return l
}

func (p *sparser) mul() *SExpr {
	l := p.unary()
	for p.peek().k == "op" {
		switch p.peek().s {
		case "*", "/", "%", "&", "<<", ">>":
			op := p.next().s
			r := p.unary()
			l = &SExpr{Op: "binop", Name: op, Args: []*SExpr{l, r}}
			continue
		}
		break
	}
	return l
}

func (p *sparser) unary() *SExpr {
	if p.peek().k == "op" {
		switch p.peek().s {
		case "!", "-", "*", "&":
			op := p.next().s
			x := p.unary()
			return &SExpr{Op: "unop", Name: op, Args: []*SExpr{x}}
		}
	}
	return p.postfix()
}

func (p *sparser) postfix() *SExpr {
	x := p.primary()
	for {
		switch {
		case p.isOp("."):
			p.i++
			if p.peek().k != "id" {
				p.fail("expected field name")
			}
			x = &SExpr{Op: "sel", Name: p.next().s, Args: []*SExpr{x}}
		case p.isOp("["):
			p.i++
			if p.isOp("*") && p.t[p.i+1].k == "op" && p.t[p.i+1].s == "]" {
				p.i += 2
				x = &SExpr{Op: "allelems", Args: []*SExpr{x}}
				continue
			}
			var lo, hi *SExpr
			if !p.isOp(":") {
				lo = p.expr()
			}
			if p.isOp(":") {
				p.i++
				if !p.isOp("]") {
					hi = p.expr()
				}
				p.expect("]")
				x = &SExpr{Op: "slice", Args: []*SExpr{x, lo, hi}}
				continue
			}
			p.expect("]")
			x = &SExpr{Op: "index", Args: []*SExpr{x, lo}}
		case p.isOp("("):
			p.i++
			var args []*SExpr
			for !p.isOp(")") {
				args = append(args, p.expr())
				if p.isOp(",") {
					p.i++
				}
			}
			p.expect(")")
			switch x.Op {
			case "ident":
				x = &SExpr{Op: "call", Name: x.Name, Args: args}
			case "sel":
				// method call or qualified call: keep receiver as first arg
				x = &SExpr{Op: "mcall", Name: x.Name, Args: append([]*SExpr{x.Args[0]}, args...)}
			default:
				p.fail("cannot call this expression")
			}
		case p.isOp("{") && (x.Op == "ident" || x.Op == "sel") && p.t[p.i+1].k == "op" && p.t[p.i+1].s == "}":
			p.i += 2
			x = &SExpr{Op: "zero", Args: []*SExpr{x}}
		default:
			return x
		}
	}
}

func (p *sparser) primary() *SExpr {
	t := p.next()
	switch t.k {
	case "id":
		return &SExpr{Op: "ident", Name: t.s, Pos: t.p}
	case "num":
		s := strings.ReplaceAll(t.s, "_", "")
		if strings.HasPrefix(s, "0x") || strings.HasPrefix(s, "0X") {
			v, err := strconv.ParseUint(s[2:], 16, 64)
			if err != nil {
				p.fail("bad number %s", t.s)
			}
			s = strconv.FormatUint(v, 10)
		}
		return &SExpr{Op: "num", Name: s}
	case "str":
		return &SExpr{Op: "str", Name: t.s}
	case "op":
		if t.s == "(" {
			x := p.expr()
			p.expect(")")
			return &SExpr{Op: "paren", Args: []*SExpr{x}}
		}
		if t.s == "[" && p.isOp("]") {
			p.i++
			x := p.unary()
			return &SExpr{Op: "slicetype", Args: []*SExpr{x}}
		}
	}
	p.i--
	p.fail("unexpected %q", t.s)
	return nil
}

func (x *SExpr) String() string {
	if x == nil {
		return "<nil>"
	}
	switch x.Op {
	case "ident", "num":
		return x.Name
	case "str":
		return strconv.Quote(x.Name)
	case "paren":
		return "(" + x.Args[0].String() + ")"
	case "sel":
		return x.Args[0].String() + "." + x.Name
	case "index":
		return x.Args[0].String() + "[" + x.Args[1].String() + "]"
	case "allelems":
		return x.Args[0].String() + "[*]"
	case "binop":
		return "(" + x.Args[0].String() + " " + x.Name + " " + x.Args[1].String() + ")"
	case "unop":
		return x.Name + x.Args[0].String()
	case "ite":
		return "(" + x.Args[0].String() + " ? " + x.Args[1].String() + " : " + x.Args[2].String() + ")"
	case "call", "mcall":
		var a []string
		for _, y := range x.Args {
			a = append(a, y.String())
		}
		return x.Name + "(" + strings.Join(a, ", ") + ")"
	case "forall", "exists":
		var b []string
		for _, p := range x.Bound {
			b = append(b, p.Name+" "+p.TypeStr)
		}
		return "(" + x.Op + " " + strings.Join(b, ", ") + " :: " + x.Args[0].String() + ")"
	case "zero":
		return x.Args[0].String() + "{}"
	case "slicetype":
		return "[]" + x.Args[0].String()
	}
	return x.Op
}

// findContractFiles lists contracts_verif.go files below root.
func findContractFiles(root string) []string {
	var out []string
	filepath.Walk(root, func(p string, info os.FileInfo, err error) error {
		if err != nil {
			return nil
		}
		if info.IsDir() && (info.Name() == ".git" || info.Name() == "node_modules") {
			return filepath.SkipDir
		}
		if !info.IsDir() && strings.HasSuffix(info.Name(), "_verif.go") && strings.HasPrefix(info.Name(), "contracts") {
			out = append(out, p)
		}
		return nil
	})
	return out
}

var caseRangeRe = regexp.MustCompile(`^([A-Za-z_][A-Za-z0-9_]*)\s+in\s+([0-9]+)\.\.([0-9]+)\s*::(.*)$`)

// expandCases expands "k in lo..hi :: e" into one case per value of k.
func expandCases(parts []string) []string {
	var out []string
	for _, p := range parts {
		m := caseRangeRe.FindStringSubmatch(strings.TrimSpace(p))
		if m == nil {
			out = append(out, p)
			continue
		}
		lo, _ := strconv.Atoi(m[2])
		hi, _ := strconv.Atoi(m[3])
		re := regexp.MustCompile(`\b` + m[1] + `\b`)
		for k := lo; k <= hi; k++ {
			out = append(out, re.ReplaceAllString(m[4], strconv.Itoa(k)))
		}
	}
	return out
}
