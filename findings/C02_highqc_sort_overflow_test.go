package cert_test

import (
	"testing"

	"github.com/relab/hotstuff"
	"github.com/relab/hotstuff/internal/proto/clientpb"
	"github.com/relab/hotstuff/internal/testutil"
	"github.com/relab/hotstuff/security/crypto"
)

// Witness (C02: "the high QC reported for an aggregate certificate is the highest-view valid
// QC among those attested by its signers"). findHighestValidQC sorted the attested QCs with
// the comparator int(b.View()) - int(a.View()). One attested QC with a view of 2^63+1 (junk, it
// does not verify; a Byzantine replica may attest anything in its own, correctly signed
// timeout message) makes that comparator cyclic (2 before 1, 1 before junk, junk before 2), the
// sort then may put the valid view-1 QC in front of the valid view-2 QC, and the verifier
// reports the lower one as the high QC. The map of attested QCs is iterated in random order,
// so the call is repeated.
func TestGovcFindingHighQCNotHighest(t *testing.T) {
	set := testutil.NewEssentialsSet(t, 4, crypto.NameECDSA)
	signers := set.Signers()
	genesis := hotstuff.GetGenesis()
	b1 := hotstuff.NewBlock(genesis.Hash(), hotstuff.NewQuorumCert(nil, 0, genesis.Hash()), &clientpb.Batch{}, 1, 1)
	for _, e := range set {
		e.Blockchain().Store(b1)
	}
	qc1 := testutil.CreateQC(t, b1, signers...)
	b2 := hotstuff.NewBlock(b1.Hash(), qc1, &clientpb.Batch{}, 2, 2)
	for _, e := range set {
		e.Blockchain().Store(b2)
	}
	qc2 := testutil.CreateQC(t, b2, signers...)
	if err := signers[0].VerifyQuorumCert(qc1); err != nil {
		t.Fatalf("setup: qc1 must verify: %v", err)
	}
	if err := signers[0].VerifyQuorumCert(qc2); err != nil {
		t.Fatalf("setup: qc2 must verify: %v", err)
	}
	junk := hotstuff.NewQuorumCert(qc1.Signature(), hotstuff.View(1<<63+1), b1.Hash())
	// replicas 1 and 4 attest qc1, replica 2 attests qc2, replica 3 (Byzantine) attests junk
	timeouts := testutil.CreateTimeouts(t, 3, signers, qc1, qc2, junk, qc1)
	agg, err := signers[0].CreateAggregateQC(3, timeouts)
	if err != nil {
		t.Fatal(err)
	}
	for i := 0; i < 300; i++ {
		high, err := signers[0].VerifyAggregateQC(agg)
		if err != nil {
			t.Fatalf("aggregate QC must verify: %v", err)
		}
		if high.View() != 2 {
			t.Fatalf("run %d: reported high QC has view %d, but the attested QC for view 2 is valid", i, high.View())
		}
	}
}
