package server

import (
	"context"
	"testing"

	"github.com/relab/gorums"
	"github.com/relab/hotstuff"
	"github.com/relab/hotstuff/core"
	"github.com/relab/hotstuff/core/eventloop"
	"github.com/relab/hotstuff/core/logging"
	"github.com/relab/hotstuff/internal/proto/hotstuffpb"
	"github.com/relab/hotstuff/security/blockchain"
)

// Witness for the defect found while putting the network handlers under contract (C10, C08):
// when the sender of a Timeout request cannot be authenticated (PeerIDFromContext fails), the
// handler logged a warning and carried on, handing the timeout to the protocol stamped with
// sender id 0. Propose, Vote and NewView drop such a request. In-package test (run with an
// overlay, see known-findings.txt); fails before the fix, passes after it.
func TestGovcFindingTimeoutFromUnauthenticatedSender(t *testing.T) {
	logger := logging.New("test")
	el := eventloop.New(logger, 16)
	cfg := core.NewRuntimeConfig(1, nil)
	srv := NewServer(el, logger, cfg, blockchain.New(el, logger, nil))
	impl := &serviceImpl{srv}
	got := 0
	eventloop.Register(el, func(m hotstuff.TimeoutMsg) {
		got++
		t.Errorf("timeout from an unauthenticated sender reached the protocol with sender id %d", m.ID)
	})
	// a context without peer information: the sender cannot be identified
	impl.Timeout(gorums.ServerCtx{Context: context.Background()}, &hotstuffpb.TimeoutMsg{View: 7})
	for el.Tick(context.Background()) {
	}
	_ = got
}
