package main

// `govc check`: the registered per-property check. Verifies every contract item tagged
// with the property on /repo's working tree, writes the evidence file, prints VIOLATION
// / KNOWN-FINDING lines and sets the exit status.

import (
	"bufio"
	"encoding/json"
	"flag"
	"fmt"
	"os"
	"path/filepath"
	"sort"
	"strconv"
	"strings"
	"time"
)

type knownFinding struct {
	Property   string
	Obligation string
	What       string
}

func loadKnownFindings(path string) (findings []knownFinding, fixed []string) {
	f, err := os.Open(path)
	if err != nil {
		return nil, nil
	}
	defer f.Close()
	sc := bufio.NewScanner(f)
	for sc.Scan() {
		ln := strings.TrimSpace(sc.Text())
		if ln == "" || strings.HasPrefix(ln, "#") {
			continue
		}
		if strings.HasPrefix(ln, "fixed:") {
			fixed = append(fixed, ln)
			continue
		}
		if strings.HasPrefix(ln, "finding:") {
			kf := knownFinding{}
			rest := strings.TrimSpace(strings.TrimPrefix(ln, "finding:"))
			for _, fld := range strings.Fields(rest) {
				if strings.HasPrefix(fld, "property=") {
					kf.Property = strings.TrimPrefix(fld, "property=")
				} else if strings.HasPrefix(fld, "obligation=") {
					kf.Obligation = strings.TrimPrefix(fld, "obligation=")
				}
			}
			if k := strings.Index(rest, " what="); k >= 0 {
				kf.What = strings.TrimSpace(rest[k+6:])
			}
			findings = append(findings, kf)
		}
	}
	return
}

type evidence struct {
	PropertyID  string         `json:"property_id"`
	Tier        string         `json:"tier"`
	Seed        int            `json:"seed"`
	Level       string         `json:"level"`
	Coverage    map[string]any `json:"coverage"`
	Assumptions []string       `json:"assumptions"`
	WallS       float64        `json:"wall_s"`
	Violations  int            `json:"violations"`
}

func cmdCheck(args []string) {
	fs := flag.NewFlagSet("check", flag.ExitOnError)
	repo := fs.String("repo", "/repo", "repository root")
	prop := fs.String("prop", "", "property id")
	tier := fs.String("tier", "quick", "quick|thorough")
	verif := fs.String("verif", "/verif", "verif root")
	par := fs.Int("par", 12, "parallel functions")
	fs.Parse(args)
	if *prop == "" {
		fmt.Fprintln(os.Stderr, "check: -prop required")
		os.Exit(2)
	}
	seed := 0
	if s := os.Getenv("VERIF_SEED"); s != "" {
		seed, _ = strconv.Atoi(s)
	}
	timeout := 90000
	if *tier == "thorough" {
		timeout = 300000
	}
	t0 := time.Now()
	evPath := filepath.Join(*verif, "evidence", *prop+".json")
	os.MkdirAll(filepath.Dir(evPath), 0o755)
	os.Remove(evPath)
	violations := 0
	fail := func(msg string) {
		// the check could not run: reported as a violation with no failing input, because on the
		// unchanged tree the check runs to completion
		rp := filepath.Join(*verif, "replays", *prop, "engine-error.json")
		os.MkdirAll(filepath.Dir(rp), 0o755)
		b, _ := json.MarshalIndent(map[string]any{"property": *prop, "error": msg, "obligation": "engine:load"}, "", " ")
		os.WriteFile(rp, b, 0o644)
		fmt.Printf("VIOLATION property=%s replay=%s no-failing-input-found\n", *prop, rp)
		ev := evidence{PropertyID: *prop, Tier: *tier, Seed: seed, Level: "proof", WallS: time.Since(t0).Seconds(), Violations: 1,
			Coverage: map[string]any{"obligations": 1, "discharged": 0, "checker_cmd": "govc check -prop " + *prop, "trusted_base": []string{}, "explanation": "the verifier could not process the working tree: " + msg},
			Assumptions: []string{}}
		b, _ = json.MarshalIndent(ev, "", " ")
		os.WriteFile(evPath, b, 0o644)
		os.Exit(1)
	}
	w, err := loadWorld(*repo, []string{"./..."})
	if err != nil {
		fail("load: " + err.Error())
	}
	w.knownObligations = map[string]bool{}
	if kfs, _ := loadKnownFindings(filepath.Join(*verif, "known-findings.txt")); kfs != nil {
		for _, k := range kfs {
			w.knownObligations[k.Obligation] = true
		}
	}
	items := w.selectItems(*prop, "")
	if len(items) == 0 {
		fail("no contract items for property " + *prop + " (contract files missing?)")
	}
	results := w.verifyAll(items, timeout, *par)
	known, _ := loadKnownFindings(filepath.Join(*verif, "known-findings.txt"))
	isKnown := func(name string) *knownFinding {
		for i := range known {
			if known[i].Property == *prop && known[i].Obligation == name {
				return &known[i]
			}
		}
		return nil
	}
	var proofObs, covers []*Obligation
	trusted := map[string]bool{}
	var funcs []map[string]any
	var solverTime float64
	bySolver := map[string]int{}
	var samples []any
	var knownLines []string
	var knownObs []string
	var inlinedAll []string
	for _, r := range results {
		fentry := map[string]any{"func": r.Func, "kind": r.Kind, "obligations": len(r.Obligations), "time_s": r.Time,
			"inlined_callees": r.Inlined, "callee_contracts_used": r.Contracts}
		if len(r.Loops) > 0 {
			fentry["loops"] = r.Loops
		}
		funcs = append(funcs, fentry)
		inlinedAll = append(inlinedAll, r.Inlined...)
		for _, t := range r.Trusted {
			trusted[t] = true
		}
		if r.Error != "" {
			violations++
			rp := writeReplay(*verif, *prop, r.Func+":engine", map[string]any{"property": *prop, "obligation": r.Func + ":engine", "error": r.Error,
				"note": "the function under contract could not be processed by the verifier on this tree (it can on the pinned tree)"})
			fmt.Printf("VIOLATION property=%s replay=%s no-failing-input-found\n", *prop, rp)
			fentry["error"] = r.Error
			continue
		}
		for _, o := range r.Obligations {
			solverTime += o.Time
			bySolver[o.Solver]++
			if o.Expect == "sat" {
				covers = append(covers, o)
				if o.Verdict == "unsat" {
					violations++
					rp := writeReplay(*verif, *prop, o.Name, map[string]any{"property": *prop, "obligation": o.Name, "verdict": o.Verdict,
						"note": "vacuity: this reachability check must be satisfiable"})
					fmt.Printf("VIOLATION property=%s replay=%s no-failing-input-found\n", *prop, rp)
				}
				continue
			}
			if !o.OK {
				if kf := isKnown(o.Name); kf != nil {
					// a recorded known finding: reported, not part of what this check claims as proved
					knownLines = append(knownLines, fmt.Sprintf("KNOWN-FINDING: property=%s %s (%s)", *prop, kf.What, o.Name))
					knownObs = append(knownObs, o.Name)
					continue
				}
			}
			proofObs = append(proofObs, o)
			if len(samples) < 6 && o.Goal != "" && o.Goal != tTrue && len(o.Goal) < 600 {
				samples = append(samples, map[string]any{"obligation": o.Name, "negated_goal_checked_unsat": o.Goal, "verdict": o.Verdict, "solver": o.Solver})
			}
			if o.OK {
				continue
			}
			violations++
			rp, confirmed := replayObligation(w, *verif, *prop, r, o)
			if confirmed {
				fmt.Printf("VIOLATION property=%s replay=%s\n", *prop, rp)
			} else {
				fmt.Printf("VIOLATION property=%s replay=%s no-failing-input-found\n", *prop, rp)
			}
		}
	}
	for _, l := range knownLines {
		fmt.Println(l)
	}
	discharged := 0
	for _, o := range proofObs {
		if o.OK {
			discharged++
		}
	}
	coverSat, coverUndecided := 0, 0
	for _, c := range covers {
		if c.Verdict == "sat" {
			coverSat++
		} else if c.Verdict == "unknown" {
			coverUndecided++
		}
	}
	if len(samples) == 0 {
		for _, o := range proofObs {
			samples = append(samples, map[string]any{"obligation": o.Name, "verdict": o.Verdict, "solver": o.Solver})
			if len(samples) >= 4 {
				break
			}
		}
	}
	slow := append([]*Obligation{}, proofObs...)
	sort.Slice(slow, func(i, j int) bool { return slow[i].Time > slow[j].Time })
	var slowest []any
	for i, o := range slow {
		if i >= 5 {
			break
		}
		slowest = append(slowest, map[string]any{"obligation": o.Name, "time_s": o.Time, "solver": o.Solver})
	}
	tb := sortedKeys(trusted)
	tb = append(tb, "go/ssa (x/tools v0.50.0) faithfully represents the compiled code", "SMT solvers z3 5.1.0 / cvc5 1.0 / z3 4.8.12",
		"Go memory safety (no dangling or forged pointers)", "the VC generator govc itself (tested by the must-fail corpus, not proved)")
	sort.Strings(inlinedAll)
	cov := map[string]any{
		"obligations": len(proofObs), "discharged": discharged,
		"checker_cmd":  fmt.Sprintf("govc check -prop %s -tier %s (per-obligation timeout %d ms)", *prop, *tier, timeout),
		"trusted_base": tb, "samples": samples,
		"functions_under_contract": funcs, "covers": len(covers), "covers_sat": coverSat, "covers_undecided": coverUndecided,
		"solver_time_s": solverTime, "obligations_by_solver": bySolver, "known_findings": knownLines, "known_finding_obligations_excluded": knownObs, "slowest_obligations": slowest,
		"integers":    "mathematical Int with exact two's-complement wrap-around at every Go operation and conversion (no overflow assumed away); mode bv64fp uses 64-bit bit-vectors and IEEE-754 binary64",
		"extraction":  "functions are verified as the go/ssa form of the files `go build -tags verif` compiles; dropped/abstracted: logging calls (no effect), channel ops and select (havocked), go statements (not merged), mutex Lock/Unlock (no-ops, atomicity assumed), termination (partial correctness)",
		"explanation": "every obligation generated from the current source of the functions under contract was sent to the solvers; discharged == obligations means all were proved unsat. Obligations listed under known_finding_obligations_excluded are the recorded known findings of /verif/known-findings.txt: they are generated and attempted on every run, are expected not to discharge, are reported on a KNOWN-FINDING line, and are not counted in obligations/discharged (what is claimed as proved excludes them)",
	}
	extra := loadPropertyNotes(*verif, *prop)
	for k, v := range extra {
		cov[k] = v
	}
	ev := evidence{PropertyID: *prop, Tier: *tier, Seed: seed, Level: "proof", Coverage: cov, WallS: time.Since(t0).Seconds(), Violations: violations,
		Assumptions: tb}
	b, _ := json.MarshalIndent(ev, "", " ")
	if err := os.WriteFile(evPath, b, 0o644); err != nil {
		fmt.Fprintln(os.Stderr, "evidence:", err)
	}
	fmt.Printf("property %s: %d/%d obligations discharged, %d covers (%d sat, %d undecided), %d function(s)/lemma(s), %d violation(s), %.1fs\n",
		*prop, discharged, len(proofObs), len(covers), coverSat, coverUndecided, len(results), violations, time.Since(t0).Seconds())
	if violations > 0 {
		os.Exit(1)
	}
}

// loadPropertyNotes reads /verif/notes/<prop>.json: static per-property statements
// (clauses not decided, bounded stand-ins) that are copied into the evidence.
func loadPropertyNotes(verif, prop string) map[string]any {
	b, err := os.ReadFile(filepath.Join(verif, "notes", prop+".json"))
	if err != nil {
		return nil
	}
	var m map[string]any
	if json.Unmarshal(b, &m) != nil {
		return nil
	}
	return m
}

func writeReplay(verif, prop, obName string, content map[string]any) string {
	dir := filepath.Join(verif, "replays", prop)
	os.MkdirAll(dir, 0o755)
	name := strings.NewReplacer("/", "_", ":", "_", "*", "", "(", "", ")", "", " ", "_", "#", "_", "@", "_", "$", "_").Replace(obName)
	p := filepath.Join(dir, name+".json")
	b, _ := json.MarshalIndent(content, "", " ")
	os.WriteFile(p, b, 0o644)
	return p
}
