package synchronizer

import (
	"testing"

	"github.com/relab/hotstuff"
	"github.com/relab/hotstuff/core"
)

// Witness for the defect fixed by "fix: timeout collector counts only the timed-out view":
// timeouts for three different views from three replicas were reported as a quorum for the
// last view, and the returned list mixed the views (obligations timeoutCollector.add:post:P1, P4).
func TestGovcFindingCollectorCrossView(t *testing.T) {
	cfg := core.NewRuntimeConfig(1, nil)
	for i := 1; i <= 4; i++ {
		cfg.AddReplica(&hotstuff.ReplicaInfo{ID: hotstuff.ID(i)})
	}
	c := newTimeoutCollector(cfg)
	c.add(hotstuff.TimeoutMsg{ID: 2, View: 7})
	c.add(hotstuff.TimeoutMsg{ID: 3, View: 8})
	list, q := c.add(hotstuff.TimeoutMsg{ID: 4, View: 9})
	if q {
		t.Fatalf("three timeouts for three different views reported as a quorum for view 9: %v", list)
	}
}
