package main

// Symbolic execution of go/ssa functions with state merging at join points and loop
// cutting at invariants. See DESIGN.md 2.1–2.4.

import (
	"go/constant"
	"fmt"
	"regexp"
	"go/token"
	"go/types"
	"sort"
	"strconv"
	"strings"

	"golang.org/x/tools/go/ssa"
)

type retRec struct {
	st   *State
	vals []Value
}

type deferRec struct {
	call *ssa.CallCommon
	args []Value
	fnv  Value
	pc   string
}

// Frame is one activation (the function under verification or an inlined callee).
type Frame struct {
	fn         *ssa.Function
	regs       map[ssa.Value]Value
	parent     *Frame
	depth      int
	item       *Item  // contract providing loop invariants
	loopPrefix string // key prefix for loops of inlined callees
	edge       map[[2]int]*State
	defers     []deferRec
	rets       []retRec
	pure       bool
	entrySt    *State // state at entry of the top-level function (for old())
	specVars   map[string]Value
	loopPhis   map[string]map[string]Value // loop key -> phi name -> value (current)
	headers    []*ssa.BasicBlock
	topFrame   *Frame
	sname      string
	curBlock   *ssa.BasicBlock
}

const maxInlineDepth = 8

func shortName(fn *ssa.Function) string {
	n := fn.Name()
	if fn.Signature.Recv() != nil {
		rt := fn.Signature.Recv().Type()
		if p, ok := rt.(*types.Pointer); ok {
			rt = p.Elem()
		}
		if nt, ok := rt.(*types.Named); ok {
			n = nt.Obj().Name() + "." + n
		}
	}
	return n
}

// get returns the symbolic value of an SSA value in the frame.
func (e *Env) get(fr *Frame, v ssa.Value, st *State) Value {
	switch x := v.(type) {
	case *ssa.Const:
		return e.constValue(x)
	case *ssa.Function:
		return &FuncV{Fn: x, Typ: x.Type()}
	case *ssa.Global:
		return e.globalPtr(x)
	case *ssa.Builtin:
		unsupp("builtin %s used as a value", x.Name())
	}
	if val, ok := fr.regs[v]; ok {
		return val
	}
	unsupp("value %s (%T) not available in %s", v.Name(), v, fr.fn.Name())
	return nil
}

func (e *Env) constValue(c *ssa.Const) Value {
	t := c.Type()
	if c.Value == nil {
		// zero value / nil
		return e.zeroValue(t)
	}
	ls := e.leavesOf(t)
	if len(ls) != 1 {
		unsupp("composite constant of type %v", t)
	}
	if bvModeInt(e, t) {
		return &Sc{T: e.bvConst(c), Sort: e.bvSort(t), Typ: t}
	}
	return e.fromLeaves(t, []string{e.constTerm(c.Value, t)})
}

// globalPtr models a package-level variable as a fixed heap cell.
func (e *Env) globalPtr(g *ssa.Global) *Ptr {
	t := g.Type().(*types.Pointer).Elem()
	name := q("G!" + g.Pkg.Pkg.Path() + "." + g.Name())
	if !e.declared[name] {
		e.declared[name] = true
		e.sess.Cmd("(declare-const " + name + " Int)")
		// globals live at negative addresses: distinct from allocated objects (unproved distinctness among globals is not assumed)
		e.sess.Cmd("(assert (< " + name + " 0))")
	}
	return &Ptr{Kind: "obj", Ref: name, Root: t, Typ: g.Type()}
}

type loopInfo struct {
	header *ssa.BasicBlock
	body   map[*ssa.BasicBlock]bool
	key    string
}

func reachableBlocks(fn *ssa.Function) map[*ssa.BasicBlock]bool {
	seen := map[*ssa.BasicBlock]bool{}
	var dfs func(b *ssa.BasicBlock)
	dfs = func(b *ssa.BasicBlock) {
		if seen[b] {
			return
		}
		seen[b] = true
		for _, s := range b.Succs {
			dfs(s)
		}
	}
	if len(fn.Blocks) > 0 {
		dfs(fn.Blocks[0])
	}
	return seen
}

func isBackEdge(from, to *ssa.BasicBlock) bool { return to.Dominates(from) }

// rpo returns the reachable blocks in reverse postorder ignoring back edges.
func rpo(fn *ssa.Function) []*ssa.BasicBlock {
	seen := map[*ssa.BasicBlock]bool{}
	var post []*ssa.BasicBlock
	var dfs func(b *ssa.BasicBlock)
	dfs = func(b *ssa.BasicBlock) {
		seen[b] = true
		for i := len(b.Succs) - 1; i >= 0; i-- {
			s := b.Succs[i]
			if !seen[s] && !isBackEdge(b, s) {
				dfs(s)
			}
		}
		post = append(post, b)
	}
	dfs(fn.Blocks[0])
	for i, j := 0, len(post)-1; i < j; i, j = i+1, j-1 {
		post[i], post[j] = post[j], post[i]
	}
	return post
}

func findLoops(fn *ssa.Function, prefix string) map[*ssa.BasicBlock]*loopInfo {
	reach := reachableBlocks(fn)
	loops := map[*ssa.BasicBlock]*loopInfo{}
	for _, b := range fn.Blocks {
		if !reach[b] {
			continue
		}
		for _, s := range b.Succs {
			if isBackEdge(b, s) {
				li := loops[s]
				if li == nil {
					li = &loopInfo{header: s, body: map[*ssa.BasicBlock]bool{s: true}}
					loops[s] = li
				}
				// reverse reachability from b up to s
				var stack []*ssa.BasicBlock
				if !li.body[b] {
					li.body[b] = true
					stack = append(stack, b)
				}
				for len(stack) > 0 {
					x := stack[len(stack)-1]
					stack = stack[:len(stack)-1]
					for _, p := range x.Preds {
						if !li.body[p] && reach[p] {
							li.body[p] = true
							stack = append(stack, p)
						}
					}
				}
			}
		}
	}
	var hs []*ssa.BasicBlock
	for h := range loops {
		hs = append(hs, h)
	}
	sort.Slice(hs, func(i, j int) bool { return hs[i].Index < hs[j].Index })
	for i, h := range hs {
		loops[h].key = prefix + strconv.Itoa(i)
	}
	return loops
}

// execFunc runs fn symbolically from state st with the given arguments and returns the
// merged results and final state (nil state if no return is reachable).
func (e *Env) execFunc(fr *Frame, args []Value, st *State) ([]Value, *State) {
	fn := fr.fn
	if len(fn.Blocks) == 0 {
		unsupp("function %s has no body", fn)
	}
	if fr.regs == nil {
		fr.regs = map[ssa.Value]Value{}
	}
	for i, p := range fn.Params {
		fr.regs[p] = args[i]
	}
	fr.edge = map[[2]int]*State{}
	if fr.loopPhis == nil {
		fr.loopPhis = map[string]map[string]Value{}
	}
	prev := e.cur
	e.cur = fr
	defer func() { e.cur = prev }()
	order := rpo(fn)
	loops := findLoops(fn, fr.loopPrefix)
	e.runBlocks(fr, order, loops, fn.Blocks[0], st, nil)
	if len(fr.rets) == 0 {
		return nil, nil
	}
	var sts []*State
	for _, r := range fr.rets {
		sts = append(sts, r.st)
	}
	out := e.mergeStates(sts)
	n := len(fr.rets[0].vals)
	res := make([]Value, n)
	for i := 0; i < n; i++ {
		var pcs []string
		var vs []Value
		for _, r := range fr.rets {
			pcs = append(pcs, r.st.pc)
			vs = append(vs, r.vals[i])
		}
		res[i] = e.mergeValues(pcs, vs)
	}
	return res, out
}

// runBlocks processes the blocks of order (a reverse postorder, possibly restricted to a
// loop body in a discovery run). entry is the first block, entered with state st. If
// region != nil this is a discovery run of that loop: the header is not cut again and
// states arriving on back edges to it are collected in region.backStates.
func (e *Env) runBlocks(fr *Frame, order []*ssa.BasicBlock, loops map[*ssa.BasicBlock]*loopInfo, entry *ssa.BasicBlock, st *State, region *regionRun) {
	for _, b := range order {
		if region != nil && !region.li.body[b] {
			continue
		}
		var cur *State
		isRegionEntry := region != nil && b == region.li.header
		if b == entry {
			cur = st.clone()
			if isRegionEntry {
				// phis were bound by the caller
			}
		} else {
			// merge forward predecessors
			var ins []*State
			var preds []*ssa.BasicBlock
			for _, p := range b.Preds {
				if isBackEdge(p, b) {
					continue
				}
				if region != nil && !region.li.body[p] {
					continue
				}
				if s, ok := fr.edge[[2]int{p.Index, b.Index}]; ok && s != nil {
					ins = append(ins, s)
					preds = append(preds, p)
				}
			}
			if len(ins) == 0 {
				continue // unreachable in this run
			}
			cur = e.mergeStates(ins)
			// phis
			for _, ins2 := range b.Instrs {
				phi, ok := ins2.(*ssa.Phi)
				if !ok {
					break
				}
				var pcs []string
				var vs []Value
				for i, p := range preds {
					idx := predIndex(b, p)
					pcs = append(pcs, ins[i].pc)
					vs = append(vs, e.get(fr, phi.Edges[idx], ins[i]))
				}
				fr.regs[phi] = e.mergeValues(pcs, vs)
			}
			if li := loops[b]; li != nil && !isRegionEntry {
				cur = e.cutLoop(fr, order, loops, li, cur)
			}
		}
		if cur.pc == tFalse {
			continue
		}
		e.execBlock(fr, b, cur, loops, region)
	}
}

type regionRun struct {
	li         *loopInfo
	backStates []*State
	backPhis   [][]Value // per back edge: the values flowing into the header phis
}

// partialHavoc records, for a loop whose body writes a heap array only at a few
// loop-invariant references, that set (the array is havocked only there).
type partialHavoc struct {
	fr    *Frame
	li    *loopInfo
	refs  map[string][]string // heap name -> allowed written refs
	viol  []string            // obligations to emit: disjunctions ref == w
	stable []stableLeaf
}

type stableLeaf struct {
	phi  *ssa.Phi
	leaf int
	term string
}

func predIndex(b, p *ssa.BasicBlock) int {
	for i, x := range b.Preds {
		if x == p {
			return i
		}
	}
	return -1
}

// phiName returns the source-level name of a phi.
func phiName(p *ssa.Phi) string {
	return strings.ReplaceAll(p.Comment, ".", "_")
}

func (e *Env) bindLoopPhis(fr *Frame, li *loopInfo) {
	m := map[string]Value{}
	for _, ins := range li.header.Instrs {
		phi, ok := ins.(*ssa.Phi)
		if !ok {
			break
		}
		if n := phiName(phi); n != "" {
			m[n] = fr.regs[phi]
		}
	}
	fr.loopPhis[li.key] = m
}

// cutLoop handles arrival at a loop header in a real run: inv-init, discovery of the
// modified heap, havoc, assumption of the invariant. Returns the havocked state.
func (e *Env) cutLoop(fr *Frame, order []*ssa.BasicBlock, loops map[*ssa.BasicBlock]*loopInfo, li *loopInfo, in *State) *State {
	e.bindLoopPhis(fr, li)
	invs := e.loopInvariants(fr, li.key)
	// inv-init
	for _, c := range invs {
		t := e.evalInv(fr, c, in)
		e.oblige("inv-init", "loop"+li.key+lbl(c.Label), in.pc, t)
	}
	if a := e.autoRangeInv(fr, li, in); a != tTrue {
		e.oblige("inv-init", "loop"+li.key+":auto-rangeindex", in.pc, a)
	}
	// discovery runs (no obligations): which heap arrays does the body write, at which
	// references, and which phi leaves does it pass through unchanged?
	counterAtEntry := e.counter
	snap := e.snapshot()
	var phis []*ssa.Phi
	for _, ins := range li.header.Instrs {
		phi, ok := ins.(*ssa.Phi)
		if !ok {
			break
		}
		phis = append(phis, phi)
	}
	discover := func(start *State, phiVals map[*ssa.Phi]Value) (*regionRun, map[string][]string, map[string]bool) {
		saveRegs := map[ssa.Value]Value{}
		for k, v := range fr.regs {
			saveRegs[k] = v
		}
		for phi, v := range phiVals {
			fr.regs[phi] = v
		}
		saveEdge := fr.edge
		fr.edge = map[[2]int]*State{}
		saveRets := fr.rets
		saveDefers := fr.defers
		savePhis := fr.loopPhis[li.key]
		e.bindLoopPhis(fr, li)
		e.dry++
		rr := &regionRun{li: li}
		saveW, saveA := e.writeLog, e.allocLog
		e.writeLog, e.allocLog = map[string][]string{}, map[string]bool{}
		e.runBlocks(fr, order, loops, li.header, start, rr)
		wlog, alog := e.writeLog, e.allocLog
		e.writeLog, e.allocLog = saveW, saveA
		if saveW != nil {
			for n, rs := range wlog {
				saveW[n] = append(saveW[n], rs...)
			}
			for r := range alog {
				saveA[r] = true
			}
		}
		e.dry--
		fr.rets = saveRets
		fr.defers = saveDefers
		fr.edge = saveEdge
		fr.regs = saveRegs
		fr.loopPhis[li.key] = savePhis
		return rr, wlog, alog
	}
	safeFlatten := func(v Value) (out []string) {
		defer func() {
			if recover() != nil {
				out = nil
			}
		}()
		return e.flatten(v)
	}
	stableOf := func(rr *regionRun, kept map[*ssa.Phi]Value) map[*ssa.Phi]map[int]bool {
		res := map[*ssa.Phi]map[int]bool{}
		for pi, phi := range phis {
			cur := kept[phi]
			if _, isF := cur.(*FuncV); isF {
				continue
			}
			if pp, isP := cur.(*Ptr); isP && (pp.Kind == "elem" || len(pp.Path) > 0) {
				continue
			}
			cl := safeFlatten(cur)
			st := map[int]bool{}
			for k := range cl {
				ok := len(rr.backPhis) > 0
				for _, bp := range rr.backPhis {
					if pi >= len(bp) {
						ok = false
						break
					}
					bl := safeFlatten(bp[pi])
					if bl == nil || k >= len(bl) || bl[k] != cl[k] {
						ok = false
					}
				}
				if ok {
					st[k] = true
				}
			}
			res[phi] = st
		}
		return res
	}
	entryVals := map[*ssa.Phi]Value{}
	for _, phi := range phis {
		entryVals[phi] = fr.regs[phi]
	}
	rr, wlog, alog := discover(in, entryVals)
	modified := map[string]bool{}
	epochChanged := false
	noteMods := func(rr *regionRun, base *State) {
		for _, bs := range rr.backStates {
			if bs.base != base.base {
				// the body called unknown code: every array it did not explicitly keep may have changed
				epochChanged = true
				for n := range e.heapSorts {
					if _, kept := bs.heap[n]; !kept {
						modified[n] = true
					}
				}
			}
			for n, t := range bs.heap {
				if e.heapGet(base, n, e.heapSorts[n]) != t {
					modified[n] = true
				}
			}
		}
	}
	noteMods(rr, in)
	stable := stableOf(rr, entryVals)
	// generalise: repeat the discovery from a state where everything that may change is
	// arbitrary, keeping only the leaves still believed stable, until nothing changes
	for round := 0; round < 4; round++ {
		tent := in.clone()
		for _, n := range sortedKeys(modified) {
			tent.heap[n] = e.fresh("tv!"+n, e.heapSorts[n])
		}
		tent.next = e.fresh("tnext", sInt)
		e.assume(sx("<=", in.next, tent.next))
		tvals := map[*ssa.Phi]Value{}
		for _, phi := range phis {
			cur := entryVals[phi]
			nv := e.havocLike(cur, phi.Type(), "tv_"+phi.Name(), tent)
			if st := stable[phi]; len(st) > 0 {
				cl, nl := e.flatten(cur), e.flatten(nv)
				for k := range nl {
					if st[k] {
						nl[k] = cl[k]
					}
				}
				nv = e.fromLeaves(phi.Type(), nl)
			}
			tvals[phi] = nv
		}
		// the tentative state is an arbitrary iteration: the invariants hold in it
		{
			saved := map[*ssa.Phi]Value{}
			for phi, v := range tvals {
				saved[phi] = fr.regs[phi]
				fr.regs[phi] = v
			}
			savePhis := fr.loopPhis[li.key]
			e.bindLoopPhis(fr, li)
			for _, c := range invs {
				e.assume(mkImp(tent.pc, e.evalInv(fr, c, tent)))
			}
			e.assume(mkImp(tent.pc, e.autoRangeInv(fr, li, tent)))
			for phi, v := range saved {
				fr.regs[phi] = v
			}
			fr.loopPhis[li.key] = savePhis
		}
		rr2, wlog2, alog2 := discover(tent, tvals)
		before := len(modified)
		noteMods(rr2, tent)
		st2 := stableOf(rr2, tvals)
		changed := len(modified) != before
		for phi, m := range stable {
			for k := range m {
				if !st2[phi][k] {
					delete(m, k)
					changed = true
				}
			}
		}
		wlog, alog = wlog2, alog2
		if !changed {
			break
		}
	}
	// havoc
	e.rollback(snap)
	hv := in.clone()
	calleeMods := len(wlog["*callee-modifies*"]) > 0
	ph := &partialHavoc{fr: fr, li: li, refs: map[string][]string{}}
	invariantTerm := func(t string) bool {
		// a term is loop-invariant if it mentions no symbol created since the loop was entered
		for _, m := range symNumRe.FindAllStringSubmatch(t, -1) {
			if n := atoi(m[1]); n > counterAtEntry {
				return false
			}
		}
		return true
	}
	for _, n := range sortedKeys(modified) {
		old := e.heapGet(in, n, e.heapSorts[n])
		// partial havoc: the body writes this array only at a few loop-invariant references
		refs := dedupe(wlog[n])
		partial := !calleeMods && len(refs) > 0 && len(refs) <= 4
		for _, r := range refs {
			if !invariantTerm(r) {
				partial = false
			}
		}
		if partial {
			t := old
			for _, r := range refs {
				inner := strings.TrimSuffix(strings.TrimPrefix(e.heapSorts[n], "(Array Int "), ")")
				t = mkStore(t, r, e.fresh("hv@"+n, inner))
			}
			hv.heap[n] = e.maybeNameForce(t, e.heapSorts[n], "hvp")
			ph.refs[n] = refs
			continue
		}
		hv.heap[n] = e.fresh("hv!"+n, e.heapSorts[n])
		// if the loop body only writes objects it allocated itself, everything allocated
		// before the loop is unchanged
		freshOnly := !calleeMods && len(wlog[n]) > 0
		for _, r := range wlog[n] {
			if !alog[r] {
				freshOnly = false
			}
		}
		if freshOnly {
			e.assume(fmt.Sprintf("(forall ((|$r| Int)) (! (=> (< |$r| %s) (= (select %s |$r|) (select %s |$r|))) :pattern ((select %s |$r|))))", in.next, hv.heap[n], old, hv.heap[n]))
		}
	}
	if epochChanged {
		e.epoch++
		hv.base = fmt.Sprintf("e%d", e.epoch)
	}
	nx := e.fresh("next", sInt)
	e.assume(sx("<=", in.next, nx))
	hv.next = nx
	for _, phi := range phis {
		cur := fr.regs[phi]
		nv := e.havocLike(cur, phi.Type(), phi.Name()+"_"+phiName(phi), hv)
		if st := stable[phi]; len(st) > 0 {
			cl := e.flatten(cur)
			nl := e.flatten(nv)
			for k := range nl {
				if st[k] {
					nl[k] = cl[k]
					ph.stable = append(ph.stable, stableLeaf{phi: phi, leaf: k, term: cl[k]})
				}
			}
			nv = e.fromLeaves(phi.Type(), nl)
		}
		fr.regs[phi] = nv
	}
	var keep []*partialHavoc
	for _, o := range e.partials {
		if !(o.fr == fr && o.li == li) {
			keep = append(keep, o)
		}
	}
	e.partials = append(keep, ph)
	e.bindLoopPhis(fr, li)
	if e.dry == 0 {
		e.noteLoop(fr, li, modified)
	}
	for _, c := range invs {
		t := e.evalInv(fr, c, hv)
		e.assume(mkImp(hv.pc, t))
	}
	e.assume(mkImp(hv.pc, e.autoRangeInv(fr, li, hv)))
	// the function's frame is an implicit loop invariant (checked on every back edge)
	fg := e.frameGoals(hv)
	for _, n := range sortedKeys(modified) {
		if g, ok := fg[n]; ok {
			e.assume(mkImp(hv.pc, g))
		}
	}
	e.useAt(fr, "loop "+li.key+" head", hv)
	return hv
}

func lbl(l string) string {
	if l == "" {
		return ""
	}
	return ":" + l
}

// havocLike returns a fresh value of the same shape as v.
func (e *Env) havocLike(v Value, t types.Type, hint string, st *State) Value {
	switch x := v.(type) {
	case *FuncV:
		if x.Fn != nil {
			return x // statically known function values do not change in loops
		}
	case *Ptr:
		if x.Kind == "elem" || len(x.Path) > 0 {
			unsupp("loop-carried interior pointer %s", hint)
		}
	}
	nv := e.freshValue(t, hint)
	for i, l := range e.leavesOf(t) {
		if l.Sort == sInt && (isRefType(l.Typ) || strings.HasSuffix(l.Path, "#arr")) {
			e.assume(sx("<", e.flatten(nv)[i], st.next))
		}
	}
	return nv
}

func (e *Env) execBlock(fr *Frame, b *ssa.BasicBlock, cur *State, loops map[*ssa.BasicBlock]*loopInfo, region *regionRun) {
	fr.curBlock = b
	setEdge := func(to *ssa.BasicBlock, s *State) {
		if isBackEdge(b, to) {
			li := loops[to]
			if region != nil && to == region.li.header {
				region.backStates = append(region.backStates, s)
				var vals []Value
				idx := predIndex(to, b)
				for _, ins := range to.Instrs {
					phi, ok := ins.(*ssa.Phi)
					if !ok {
						break
					}
					vals = append(vals, e.get(fr, phi.Edges[idx], s))
				}
				region.backPhis = append(region.backPhis, vals)
				return
			}
			if li == nil {
				unsupp("back edge to a block that is not a loop header")
			}
			e.loopBack(fr, li, b, s)
			return
		}
		fr.edge[[2]int{b.Index, to.Index}] = s
	}
	for _, ins := range b.Instrs {
		switch x := ins.(type) {
		case *ssa.Phi:
			continue
		case *ssa.If:
			c := e.get(fr, x.Cond, cur).(*Sc).T
			c = e.maybeName(c, sBool)
			t := cur.clone()
			t.pc = e.maybeName(mkAnd(cur.pc, c), sBool)
			f := cur.clone()
			f.pc = e.maybeName(mkAnd(cur.pc, mkNot(c)), sBool)
			if b.Succs[0] == b.Succs[1] {
				setEdge(b.Succs[0], cur)
			} else {
				setEdge(b.Succs[0], t)
				setEdge(b.Succs[1], f)
			}
			return
		case *ssa.Jump:
			setEdge(b.Succs[0], cur)
			return
		case *ssa.Return:
			var vals []Value
			for _, r := range x.Results {
				vals = append(vals, e.get(fr, r, cur))
			}
			fr.rets = append(fr.rets, retRec{st: cur, vals: vals})
			return
		case *ssa.Panic:
			e.explicitPanic(fr, x, cur)
			return
		default:
			e.execInstr(fr, ins, cur)
			if cur.pc == tFalse {
				return
			}
		}
	}
}

// loopBack checks the invariant on a back edge.
func (e *Env) loopBack(fr *Frame, li *loopInfo, from *ssa.BasicBlock, s *State) {
	// bind phis to the values flowing along this back edge
	save := map[*ssa.Phi]Value{}
	idx := predIndex(li.header, from)
	var newVals []Value
	var phis []*ssa.Phi
	for _, ins := range li.header.Instrs {
		phi, ok := ins.(*ssa.Phi)
		if !ok {
			break
		}
		phis = append(phis, phi)
		newVals = append(newVals, e.get(fr, phi.Edges[idx], s))
	}
	for i, phi := range phis {
		save[phi] = fr.regs[phi]
		fr.regs[phi] = newVals[i]
	}
	savePhis := fr.loopPhis[li.key]
	e.bindLoopPhis(fr, li)
	e.useAt(fr, "loop "+li.key+" back", s)
	for _, c := range e.loopInvariants(fr, li.key) {
		t := e.evalInv(fr, c, s)
		e.oblige("inv-step", "loop"+li.key+lbl(c.Label), s.pc, t)
	}
	if a := e.autoRangeInv(fr, li, s); a != tTrue {
		e.oblige("inv-step", "loop"+li.key+":auto-rangeindex", s.pc, a)
	}
	if e.dry == 0 {
		fg := e.frameGoals(s)
		for _, n := range sortedKeys2(fg) {
			e.oblige("inv-step", "loop"+li.key+":frame:"+sanitize(n), s.pc, fg[n])
		}
	}
	// automatic invariants introduced by loop cutting: stable phi leaves, partial havoc
	for _, ph := range e.partials {
		if ph.li != li || ph.fr != fr {
			continue
		}
		for _, sl := range ph.stable {
			// fr.regs[phi] is currently bound to the value flowing along this back edge
			cur := e.flatten(fr.regs[sl.phi])
			if sl.leaf < len(cur) {
				e.oblige("inv-step", "loop"+li.key+":auto-stable:"+sl.phi.Name(), s.pc, mkEq(cur[sl.leaf], sl.term))
			}
		}
		for i, v := range ph.viol {
			e.oblige("inv-step", fmt.Sprintf("loop%s:auto-writes#%d", li.key, i), s.pc, v)
		}
		ph.viol = nil
	}
	if e.dry == 0 {
		e.cover("loop"+li.key+"-back", s.pc)
	}
	for phi, v := range save {
		fr.regs[phi] = v
	}
	fr.loopPhis[li.key] = savePhis
}

func (e *Env) explicitPanic(fr *Frame, x *ssa.Panic, cur *State) {
	if fr.pure {
		return
	}
	top := e.topItem()
	if top != nil && top.Opts["allow-explicit-panic"] != "" {
		return
	}
	k := e.nextOrdinalIfReal("panic:explicit@" + fr.sname)
	e.oblige("panic", fmt.Sprintf("explicit@%s#%d", fr.sname, k), cur.pc, tFalse)
}

func (e *Env) nextOrdinalIfReal(kind string) int {
	if e.dry > 0 {
		return 0
	}
	return e.nextOrdinal(kind)
}

// panicCheck emits a panic-freedom obligation.
func (e *Env) panicCheck(fr *Frame, kind string, st *State, safe string) {
	if fr.pure || e.quantDepth > 0 {
		return
	}
	if safe == tTrue {
		return
	}
	k := e.nextOrdinalIfReal("panic:" + kind + "@" + fr.sname)
	e.oblige("panic", fmt.Sprintf("%s@%s#%d", kind, fr.sname, k), st.pc, safe)
	// after the check, execution continues only if safe
	e.assume(mkImp(st.pc, safe))
}

func (e *Env) execInstr(fr *Frame, ins ssa.Instruction, st *State) {
	e.curState = st
	switch x := ins.(type) {
	case *ssa.DebugRef:
	case *ssa.Alloc:
		t := x.Type().(*types.Pointer).Elem()
		fr.regs[x] = e.allocObj(st, t, nil)
		fr.regs[x].(*Ptr).Typ = x.Type()
	case *ssa.Store:
		p := e.get(fr, x.Addr, st).(*Ptr)
		v := e.get(fr, x.Val, st)
		e.nilCheckPtr(fr, p, st)
		e.store(st, p, v)
	case *ssa.UnOp:
		fr.regs[x] = e.unop(fr, x, st)
	case *ssa.BinOp:
		fr.regs[x] = e.binop(fr, x, st)
	case *ssa.FieldAddr:
		p := e.get(fr, x.X, st).(*Ptr)
		e.nilCheckPtr(fr, p, st)
		fr.regs[x] = &Ptr{Kind: p.Kind, Ref: p.Ref, Idx: p.Idx, Root: p.Root, Path: append(append([]int(nil), p.Path...), x.Field), Typ: x.Type()}
	case *ssa.Field:
		s := e.get(fr, x.X, st).(*Struct)
		fr.regs[x] = s.F[x.Field]
	case *ssa.IndexAddr:
		fr.regs[x] = e.indexAddr(fr, x, st)
	case *ssa.Index:
		unsupp("index of array value %v", x.X.Type())
	case *ssa.Slice:
		fr.regs[x] = e.sliceOp(fr, x, st)
	case *ssa.Lookup:
		fr.regs[x] = e.lookup(fr, x, st)
	case *ssa.MapUpdate:
		m := e.get(fr, x.Map, st).(*MapV)
		e.panicCheck(fr, "nilmap", st, mkNot(mkEq(m.Ref, "0")))
		e.mapUpdate(st, m, e.get(fr, x.Key, st), e.get(fr, x.Value, st))
		e.ghostAt(fr, "mapupdate", fieldNameOf(x.Map), []Value{e.get(fr, x.Key, st), e.get(fr, x.Value, st)}, st)
	case *ssa.MakeMap:
		fr.regs[x] = e.makeMap(st, x.Type())
	case *ssa.MakeSlice:
		fr.regs[x] = e.makeSlice(fr, x, st)
	case *ssa.MakeChan:
		fr.regs[x] = &Sc{T: e.fresh("chan", sInt), Sort: sInt, Typ: x.Type()}
	case *ssa.MakeClosure:
		var bind []Value
		for _, b := range x.Bindings {
			bind = append(bind, e.get(fr, b, st))
		}
		fr.regs[x] = &FuncV{Fn: x.Fn.(*ssa.Function), Bind: bind, Typ: x.Type()}
	case *ssa.MakeInterface:
		fr.regs[x] = e.makeInterface(e.get(fr, x.X, st), x.X.Type(), x.Type())
	case *ssa.ChangeInterface:
		v := e.get(fr, x.X, st).(*Iface)
		fr.regs[x] = &Iface{T: v.T, Typ: x.Type()}
	case *ssa.ChangeType:
		fr.regs[x] = e.retype(e.get(fr, x.X, st), x.Type())
	case *ssa.Convert:
		fr.regs[x] = e.convert(fr, x, st)
	case *ssa.TypeAssert:
		fr.regs[x] = e.typeAssert(fr, x, st)
	case *ssa.Extract:
		t := e.get(fr, x.Tuple, st).(*Tuple)
		fr.regs[x] = t.V[x.Index]
	case *ssa.Call:
		res := e.call(fr, &x.Call, x, st)
		if res != nil {
			fr.regs[x] = res
		}
	case *ssa.Defer:
		d := deferRec{call: &x.Call, pc: st.pc}
		for _, a := range x.Call.Args {
			d.args = append(d.args, e.get(fr, a, st))
		}
		if !x.Call.IsInvoke() {
			if _, isBuiltin := x.Call.Value.(*ssa.Builtin); !isBuiltin {
				d.fnv = e.get(fr, x.Call.Value, st)
			}
		} else {
			d.fnv = e.get(fr, x.Call.Value, st)
		}
		fr.defers = append(fr.defers, d)
	case *ssa.RunDefers:
		for i := len(fr.defers) - 1; i >= 0; i-- {
			e.runDeferred(fr, fr.defers[i], st)
		}
	case *ssa.Go:
		e.trust("go statement in " + fr.fn.Name() + ": effects of the spawned goroutine are not merged into the spawner")
		{
			var gargs []Value
			for _, a := range x.Call.Args {
				gargs = append(gargs, e.get(fr, a, st))
			}
			name := ""
			if f, ok := x.Call.Value.(*ssa.Function); ok {
				name = f.Name()
			} else if x.Call.IsInvoke() {
				name = x.Call.Method.Name()
			}
			e.ghostAt(fr, "go", name, gargs, st)
		}
	case *ssa.Send:
		e.trust("channel send: no effect on modelled state")
		e.ghostAt(fr, "send", "", []Value{e.get(fr, x.Chan, st), e.get(fr, x.X, st)}, st)
	case *ssa.Select:
		fr.regs[x] = e.freshValue(x.Type(), "select")
		e.trust("select: outcome and received values havocked")
	case *ssa.Range:
		fr.regs[x] = e.rangeInit(fr, x, st)
	case *ssa.Next:
		fr.regs[x] = e.rangeNext(fr, x, st)
	default:
		unsupp("instruction %T (%s) in %s", ins, ins, fr.fn)
	}
}

func (e *Env) retype(v Value, t types.Type) Value {
	fl := e.flatten(v)
	return e.fromLeaves(t, fl)
}

func (e *Env) nilCheckPtr(fr *Frame, p *Ptr, st *State) {
	if p.Kind != "obj" {
		return
	}
	if strings.HasPrefix(p.Ref, "|ref!") || strings.HasPrefix(p.Ref, "|G!") {
		return // freshly allocated object / global: never nil
	}
	e.panicCheck(fr, "nil", st, mkNot(mkEq(p.Ref, "0")))
}

func (e *Env) unop(fr *Frame, x *ssa.UnOp, st *State) Value {
	v := e.get(fr, x.X, st)
	switch x.Op {
	case token.MUL: // load
		p := v.(*Ptr)
		e.nilCheckPtr(fr, p, st)
		r := e.load(st, p)
		return e.retypeIfNeeded(r, x.Type())
	case token.NOT:
		return boolV(mkNot(v.(*Sc).T))
	case token.SUB:
		s := v.(*Sc)
		if isFloat(x.Type()) {
			return &Sc{T: sx(e.uninterpUnop("fneg"), s.T), Sort: sInt, Typ: x.Type()}
		}
		if e.bvfp {
			return &Sc{T: sx("bvneg", s.T), Sort: s.Sort, Typ: x.Type()}
		}
		return &Sc{T: wrapTerm(sx("-", s.T), x.Type()), Sort: sInt, Typ: x.Type()}
	case token.XOR:
		s := v.(*Sc)
		if s.Sort == sBV8 {
			return &Sc{T: sx("bvnot", s.T), Sort: sBV8, Typ: x.Type()}
		}
		if isUnsigned(x.Type()) {
			return &Sc{T: sx("-", mkBig(new2big(bitWidth(x.Type()))), s.T), Sort: sInt, Typ: x.Type()}
		}
		return &Sc{T: sx("-", sx("-", s.T), "1"), Sort: sInt, Typ: x.Type()}
	case token.ARROW:
		e.trust("channel receive: received value havocked")
		if x.CommaOk {
			return e.freshValue(x.Type(), "recv")
		}
		return e.freshValue(x.Type(), "recv")
	}
	unsupp("unary operator %v", x.Op)
	return nil
}

func new2big(w int) string {
	// 2^w - 1
	s := pow2str(w)
	// subtract one from decimal string via big
	return subOne(s)
}

func (e *Env) uninterpUnop(name string) string {
	n := q("op!" + name)
	if !e.declared[n] {
		e.declared[n] = true
		e.sess.Cmd("(declare-fun " + n + " (Int) Int)")
	}
	return n
}

func (e *Env) retypeIfNeeded(v Value, t types.Type) Value {
	return v
}

func (e *Env) binop(fr *Frame, x *ssa.BinOp, st *State) Value {
	a := e.get(fr, x.X, st)
	b := e.get(fr, x.Y, st)
	isCmp := false
	switch x.Op {
	case token.EQL, token.NEQ, token.LSS, token.LEQ, token.GTR, token.GEQ:
		isCmp = true
	}
	sa, oka := a.(*Sc)
	sb, okb := b.(*Sc)
	if !oka || !okb {
		// equality on composite / reference values
		if x.Op == token.EQL || x.Op == token.NEQ {
			eq := e.refEq(a, b)
			if x.Op == token.NEQ {
				eq = mkNot(eq)
			}
			return boolV(eq)
		}
		unsupp("binary operator %v on %T", x.Op, a)
	}
	if e.bvfp && (strings.HasPrefix(sa.Sort, "(_ BitVec") || strings.HasPrefix(sa.Sort, "(_ Float")) {
		return e.bvBinop(x, sa, sb)
	}
	if sa.Sort == sBool {
		switch x.Op {
		case token.EQL:
			return boolV(mkEq(sa.T, sb.T))
		case token.NEQ:
			return boolV(mkNot(mkEq(sa.T, sb.T)))
		}
		unsupp("boolean operator %v", x.Op)
	}
	if sa.Sort == sBV8 {
		if isCmp {
			return boolV(bv8Compare(x.Op, sa.T, sb.T))
		}
		if x.Op == token.SHL {
			return &Sc{T: bv8Shl(sa.T, sb.T), Sort: sBV8, Typ: x.Type()}
		}
		if t, ok := bv8Binop(x.Op, sa.T, sb.T); ok {
			return &Sc{T: t, Sort: sBV8, Typ: x.Type()}
		}
		unsupp("byte operator %v in mode bytebv", x.Op)
	}
	xt := x.X.Type()
	if isString(xt) {
		if isCmp && (x.Op == token.EQL || x.Op == token.NEQ) {
			return boolV(intCompare(x.Op, sa.T, sb.T))
		}
		if x.Op == token.ADD {
			return &Sc{T: sx(e.uninterpBinopS("strcat"), sa.T, sb.T), Sort: sInt, Typ: x.Type()}
		}
		unsupp("string operator %v", x.Op)
	}
	if isFloat(xt) {
		if x.Op == token.EQL || x.Op == token.NEQ {
			return boolV(intCompare(x.Op, sa.T, sb.T))
		}
		if isCmp {
			f := e.uninterpBinopS("fcmp" + x.Op.String())
			return boolV(mkEq(sx(f, sa.T, sb.T), "1"))
		}
		return &Sc{T: sx(e.uninterpBinopS("f"+x.Op.String()), sa.T, sb.T), Sort: sInt, Typ: x.Type()}
	}
	if isCmp {
		return boolV(intCompare(x.Op, sa.T, sb.T))
	}
	if x.Op == token.SHL || x.Op == token.SHR {
		// negative shift count panics
		if !isUnsigned(x.Y.Type()) {
			e.panicCheck(fr, "shift", st, sx(">=", sb.T, "0"))
		}
		// shift of a byte-sorted value by an int in bytebv mode handled above
		if sb.Sort == sBV8 {
			unsupp("shift count of byte sort")
		}
	}
	t := e.intBinop(x.Op, sa.T, sb.T, x.Type(), st, func(nz string) { e.panicCheck(fr, "div0", st, nz) })
	return &Sc{T: e.maybeName(t, sInt), Sort: sInt, Typ: x.Type()}
}

func (e *Env) uninterpBinopS(name string) string {
	n := q("op!" + sanitize(name))
	if !e.declared[n] {
		e.declared[n] = true
		e.sess.Cmd("(declare-fun " + n + " (Int Int) Int)")
	}
	return n
}

// refEq compares references, interfaces, structs.
func (e *Env) refEq(a, b Value) string {
	if pa, ok := a.(*Ptr); ok {
		if pb, ok := b.(*Ptr); ok {
			if pa.Kind == pb.Kind && samePath(pa.Path, pb.Path) {
				if pa.Kind == "elem" {
					return mkAnd(mkEq(pa.Ref, pb.Ref), mkEq(pa.Idx, pb.Idx))
				}
				return mkEq(pa.Ref, pb.Ref)
			}
			if len(pa.Path) == 0 && pb.Ref == "0" || len(pb.Path) == 0 && pa.Ref == "0" {
				return tFalse
			}
			unsupp("comparison of interior pointers")
		}
	}
	if sa, ok := a.(*Slice); ok {
		// only comparison with nil is legal in Go
		if sb, ok := b.(*Slice); ok {
			if sb.Arr == "0" {
				return mkEq(sa.Arr, "0")
			}
			if sa.Arr == "0" {
				return mkEq(sb.Arr, "0")
			}
		}
	}
	if fa, ok := a.(*FuncV); ok {
		if fb, ok := b.(*FuncV); ok {
			// func == nil
			if fa.Fn != nil && fb.Fn == nil && fb.Abs == "0" {
				return tFalse
			}
			if fb.Fn != nil && fa.Fn == nil && fa.Abs == "0" {
				return tFalse
			}
			if fa.Fn == nil && fb.Fn == nil {
				return mkEq(fa.Abs, fb.Abs)
			}
		}
	}
	return e.valueEq(a, b)
}

func (e *Env) indexAddr(fr *Frame, x *ssa.IndexAddr, st *State) Value {
	base := e.get(fr, x.X, st)
	idx := e.get(fr, x.Index, st).(*Sc).T
	switch b := base.(type) {
	case *Slice:
		e.panicCheck(fr, "index", st, mkAnd(sx("<=", "0", idx), sx("<", idx, b.Len)))
		et := b.Typ.Underlying().(*types.Slice).Elem()
		return &Ptr{Kind: "elem", Ref: b.Arr, Idx: e.maybeName(ixTerm(b.Off, idx), sInt), Root: et, Typ: x.Type()}
	case *Ptr:
		if b.Kind == "arr" {
			at := b.Root.Underlying().(*types.Array)
			e.panicCheck(fr, "index", st, mkAnd(sx("<=", "0", idx), sx("<", idx, fmt.Sprint(at.Len()))))
			return &Ptr{Kind: "elem", Ref: b.Ref, Idx: idx, Root: at.Elem(), Typ: x.Type()}
		}
	}
	unsupp("IndexAddr on %T", base)
	return nil
}

func (e *Env) sliceOp(fr *Frame, x *ssa.Slice, st *State) Value {
	base := e.get(fr, x.X, st)
	var lo, hi, mx string
	if x.Low != nil {
		lo = e.get(fr, x.Low, st).(*Sc).T
	}
	if x.High != nil {
		hi = e.get(fr, x.High, st).(*Sc).T
	}
	if x.Max != nil {
		mx = e.get(fr, x.Max, st).(*Sc).T
	}
	switch b := base.(type) {
	case *Slice:
		if lo == "" {
			lo = "0"
		}
		if hi == "" {
			hi = b.Len
		}
		cp := b.Cap
		if mx != "" {
			cp = mx
			e.panicCheck(fr, "slice", st, mkAnd(sx("<=", "0", lo), sx("<=", lo, hi), sx("<=", hi, mx), sx("<=", mx, b.Cap)))
		} else {
			e.panicCheck(fr, "slice", st, mkAnd(sx("<=", "0", lo), sx("<=", lo, hi), sx("<=", hi, b.Cap)))
		}
		return &Slice{Arr: b.Arr, Off: e.maybeName(addTerms(b.Off, lo), sInt), Len: e.maybeName(sx("-", hi, lo), sInt), Cap: e.maybeName(sx("-", cp, lo), sInt), Typ: x.Type()}
	case *Ptr:
		if at, ok := b.pointee().Underlying().(*types.Array); ok && b.Kind != "arr" && isByte(at.Elem()) {
			// slicing a byte array that is modelled as an atom: a view with unspecified contents
			// (the relation between the atom and its bytes is not modelled)
			n := fmt.Sprint(at.Len())
			if lo == "" {
				lo = "0"
			}
			if hi == "" {
				hi = n
			}
			e.panicCheck(fr, "slice", st, mkAnd(sx("<=", "0", lo), sx("<=", lo, hi), sx("<=", hi, n)))
			r := e.alloc(st)
			e.trust("bytes of [N]byte values (hashes): a slice of the whole value holds abytes(value); writes through such a slice are not reflected in the value")
			sl := &Slice{Arr: r, Off: lo, Len: simplifySub(hi, lo), Cap: simplifySub(n, lo), Typ: x.Type()}
			// (every view remembers the variable and the offset it was cut at: binary.PutUintNN
			// and hash.Sum write through such views, see bytesmodel.go)
			if e.arrayViewAt == nil {
				e.arrayViewAt = map[string]viewOrigin{}
			}
			e.arrayViewAt[r] = viewOrigin{ptr: b, lo: lo, n: int(at.Len())}
			if lo == "0" && hi == n {
				if e.arrayViews == nil {
					e.arrayViews = map[string]*Ptr{}
				}
				e.arrayViews[r] = b
				// the whole value viewed as bytes
				e.declBytesFuncs()
				if fl := e.flatten(e.load(st, b)); len(fl) == 1 {
					e.assume(mkImp(st.pc, mkEq(e.contentTerm(st, sl), sx("|abytes!|", fl[0]))))
				}
			}
			return sl
		}
		if b.Kind == "arr" {
			at := b.Root.Underlying().(*types.Array)
			n := fmt.Sprint(at.Len())
			if lo == "" {
				lo = "0"
			}
			if hi == "" {
				hi = n
			}
			e.panicCheck(fr, "slice", st, mkAnd(sx("<=", "0", lo), sx("<=", lo, hi), sx("<=", hi, n)))
			return &Slice{Arr: b.Ref, Off: lo, Len: simplifySub(hi, lo), Cap: simplifySub(n, lo), Typ: x.Type()}
		}
	case *Sc:
		if isString(b.Typ) {
			// substring: uninterpreted
			if lo == "" {
				lo = "0"
			}
			if hi == "" {
				hi = sx("strlen", b.T)
			}
			e.declStrFuncs()
			e.panicCheck(fr, "slice", st, mkAnd(sx("<=", "0", lo), sx("<=", lo, hi), sx("<=", hi, sx("strlen", b.T))))
			return &Sc{T: sx("substr!", b.T, lo, hi), Sort: sInt, Typ: x.Type()}
		}
	}
	unsupp("Slice on %T", base)
	return nil
}

func simplifySub(a, b string) string {
	if b == "0" {
		return a
	}
	if isNumeral(a) && isNumeral(b) {
		return fmt.Sprint(atoi(a) - atoi(b))
	}
	return sx("-", a, b)
}

func (e *Env) declStrFuncs() {
	if !e.declared["strfuncs"] {
		e.declared["strfuncs"] = true
		e.sess.Cmd("(declare-fun strlen (Int) Int)")
		e.sess.Cmd("(declare-fun substr! (Int Int Int) Int)")
		e.sess.Cmd("(assert (forall ((s Int)) (! (>= (strlen s) 0) :pattern ((strlen s)))))")
		e.sess.Cmd("(assert (= (strlen 0) 0))")
	}
}

func (e *Env) lookup(fr *Frame, x *ssa.Lookup, st *State) Value {
	base := e.get(fr, x.X, st)
	switch b := base.(type) {
	case *MapV:
		v, ok := e.mapLookup(st, b, e.get(fr, x.Index, st))
		if x.CommaOk {
			return &Tuple{V: []Value{v, boolV(ok)}, Typ: x.Type()}
		}
		return v
	case *Sc:
		if isString(b.Typ) {
			e.declStrFuncs()
			idx := e.get(fr, x.Index, st).(*Sc).T
			e.panicCheck(fr, "index", st, mkAnd(sx("<=", "0", idx), sx("<", idx, sx("strlen", b.T))))
			return e.freshValue(x.Type(), "strbyte")
		}
	}
	unsupp("Lookup on %T", base)
	return nil
}

func (e *Env) makeSlice(fr *Frame, x *ssa.MakeSlice, st *State) Value {
	ln := e.get(fr, x.Len, st).(*Sc).T
	cp := e.get(fr, x.Cap, st).(*Sc).T
	et := x.Type().Underlying().(*types.Slice).Elem()
	e.panicCheck(fr, "makeslice", st, mkAnd(sx("<=", "0", ln), sx("<=", ln, cp), sx("<=", cp, maxElems(et))))
	r := e.alloc(st)
	e.initBacking(st, r, et)
	return &Slice{Arr: r, Off: "0", Len: ln, Cap: cp, Typ: x.Type()}
}

// ---------------------------------------------------------------------------
// interfaces

func (e *Env) declIface() {
	if !e.declared["dyntag"] {
		e.declared["dyntag"] = true
		e.sess.Cmd("(declare-fun dyntag (Int) Int)")
		e.sess.Cmd("(assert (= (dyntag 0) 0))")
	}
}

func (e *Env) typeTag(t types.Type) string {
	return e.strID("type:" + typeKey(t))
}

func (e *Env) boxFuncs(t types.Type) (box string, unbox []string) {
	key := typeKey(t)
	ls := e.leavesOf(t)
	box = q("box!" + key)
	for _, l := range ls {
		unbox = append(unbox, q("unbox!"+key+"!"+l.Path))
	}
	if !e.declared[box] {
		e.declared[box] = true
		e.declIface()
		var sorts []string
		for _, l := range ls {
			sorts = append(sorts, l.Sort)
		}
		e.sess.Cmd("(declare-fun " + box + " (" + strings.Join(sorts, " ") + ") Int)")
		for i, l := range ls {
			e.sess.Cmd("(declare-fun " + unbox[i] + " (Int) " + l.Sort + ")")
		}
	}
	return
}

func (e *Env) makeInterface(v Value, from, to types.Type) Value {
	if iv, ok := v.(*Iface); ok {
		return &Iface{T: iv.T, Typ: to}
	}
	if fv, ok := v.(*FuncV); ok && fv.Fn != nil {
		// a closure boxed into an interface (e.g. handler): keep an opaque id
		return &Iface{T: e.fresh("boxedfunc", sInt), Typ: to}
	}
	box, unbox := e.boxFuncs(from)
	fl := e.flatten(v)
	var term string
	if len(fl) == 0 {
		term = box
	} else {
		term = sx(box, fl...)
	}
	if e.quantDepth == 0 {
		n := e.maybeNameForce(term, sInt, "iface")
		e.assume(mkAnd(sx(">", n, "0"), mkEq(sx("dyntag", n), e.typeTag(from))))
		for i := range fl {
			e.assume(mkEq(sx(unbox[i], n), fl[i]))
		}
		term = n
	}
	return &Iface{T: term, Typ: to}
}

func (e *Env) typeAssert(fr *Frame, x *ssa.TypeAssert, st *State) Value {
	iv := e.get(fr, x.X, st).(*Iface)
	e.declIface()
	var ok string
	var val Value
	if _, isIface := x.AssertedType.Underlying().(*types.Interface); isIface {
		f := q("implements!" + typeKey(x.AssertedType))
		if !e.declared[f] {
			e.declared[f] = true
			e.sess.Cmd("(declare-fun " + f + " (Int) Bool)")
		}
		ok = mkAnd(mkNot(mkEq(iv.T, "0")), sx(f, sx("dyntag", iv.T)))
		// a value statically typed as an interface I implements every interface whose
		// method set I's includes
		if types.Implements(x.X.Type(), x.AssertedType.Underlying().(*types.Interface)) {
			ok = mkNot(mkEq(iv.T, "0"))
		}
		val = &Iface{T: iv.T, Typ: x.AssertedType}
	} else {
		ok = mkEq(sx("dyntag", iv.T), e.typeTag(x.AssertedType))
		_, unbox := e.boxFuncs(x.AssertedType)
		var ts []string
		for _, u := range unbox {
			ts = append(ts, sx(u, iv.T))
		}
		raw := e.fromLeaves(x.AssertedType, ts)
		// type-range / shape facts for the unboxed payload (it was boxed from a well-formed value)
		for i, l := range e.leavesOf(x.AssertedType) {
			if l.Sort == sInt {
				if isRefType(l.Typ) || strings.HasSuffix(l.Path, "#arr") {
					e.assume(mkImp(ok, mkAnd(sx("<=", "0", ts[i]), sx("<", ts[i], st.next))))
				} else if r := e.typeRange(ts[i], l.Typ); r != tTrue {
					e.assume(mkImp(ok, r))
				}
			}
		}
		e.assumeShapeIf(ok, raw)
		e.payloadAtEntry(iv.T, x.AssertedType, ts)
		val = raw
	}
	ok = e.maybeName(ok, sBool)
	if x.CommaOk {
		zero := e.zeroValue(x.AssertedType)
		return &Tuple{V: []Value{e.merge(ok, val, zero), boolV(ok)}, Typ: x.Type()}
	}
	e.panicCheck(fr, "assert", st, ok)
	return val
}

func (e *Env) convert(fr *Frame, x *ssa.Convert, st *State) Value {
	v := e.get(fr, x.X, st)
	from, to := x.X.Type(), x.Type()
	if e.bvfp {
		return e.bvConvert(v.(*Sc), from, to)
	}
	switch {
	case isInteger(from) && isInteger(to):
		s := v.(*Sc)
		if s.Sort == sBV8 && e.scalarSort(to) == sBV8 {
			return &Sc{T: s.T, Sort: sBV8, Typ: to}
		}
		if s.Sort == sBV8 {
			return &Sc{T: e.maybeName(bv8ToInt(s.T), sInt), Sort: sInt, Typ: to}
		}
		if e.scalarSort(to) == sBV8 {
			unsupp("conversion of an integer to a byte in mode bytebv")
		}
		return &Sc{T: e.maybeName(wrapTerm(s.T, to), sInt), Sort: sInt, Typ: to}
	case isString(to) || isString(from):
		// string <-> []byte / []rune / int: uninterpreted, fresh result
		e.trust("string conversion treated as an unspecified value")
		return e.freshValue(to, "strconv")
	case isFloat(from) || isFloat(to):
		s := v.(*Sc)
		if isFloat(from) && isFloat(to) {
			return &Sc{T: s.T, Sort: sInt, Typ: to}
		}
		f := e.uninterpUnop("conv!" + typeKey(from) + "!" + typeKey(to))
		r := &Sc{T: sx(f, s.T), Sort: sInt, Typ: to}
		if isInteger(to) {
			nv := e.freshValue(to, "f2i")
			e.assume(mkEq(nv.(*Sc).T, r.T))
			return nv
		}
		return r
	}
	// pointer conversions etc.
	return e.retype(v, to)
}

func subOne(dec string) string {
	b := []byte(dec)
	i := len(b) - 1
	for i >= 0 && b[i] == '0' {
		b[i] = '9'
		i--
	}
	if i >= 0 {
		b[i]--
	}
	return strings.TrimLeft(string(b), "0")
}

// autoRangeInv is the invariant the engine adds for the hidden index of a
// range-over-slice/int loop: -1 <= rangeindex < bound, where bound is the loop-invariant
// value the index is compared with in the header. It is checked like any other
// invariant (inv-init / inv-step obligations).
func (e *Env) autoRangeInv(fr *Frame, li *loopInfo, st *State) string {
	var out []string
	for _, ins := range li.header.Instrs {
		phi, ok := ins.(*ssa.Phi)
		if !ok {
			break
		}
		if phi.Comment != "rangeindex" {
			// a counting loop variable (starts at a constant, only ever incremented by a positive
			// constant, compared with `<` / `<=` inside the loop): it never drops below its start
			if lo, ok := e.countingPhi(li, phi); ok {
				if v, ok := fr.regs[phi].(*Sc); ok && v.Sort == sInt {
					out = append(out, sx("<=", lo, v.T))
					if ub := e.countingUpper(fr, li, phi, st); ub != "" {
						out = append(out, mkOr(sx("<=", v.T, ub), sx("<", ub, lo)))
					}
				}
			}
			continue
		}
		v, ok := fr.regs[phi].(*Sc)
		if !ok || v.Sort != sInt {
			continue
		}
		out = append(out, sx("<=", "(- 1)", v.T))
		// find  t = phi + 1 ; c = t < bound  in the header
		for _, in2 := range li.header.Instrs {
			b, ok := in2.(*ssa.BinOp)
			if !ok || b.Op != token.LSS {
				continue
			}
			add, ok := b.X.(*ssa.BinOp)
			if !ok || add.Op != token.ADD || add.X != ssa.Value(phi) {
				continue
			}
			// the bound must be defined outside the loop
			if bi, ok := b.Y.(ssa.Instruction); ok && li.body[bi.Block()] {
				continue
			}
			bv, ok := e.get(fr, b.Y, st).(*Sc)
			if ok && bv.Sort == sInt {
				out = append(out, mkOr(sx("<", v.T, bv.T), sx("<", bv.T, "0")))
			}
		}
	}
	return mkAnd(out...)
}

// countingPhi recognises `for i := c; i < n; i += k` style header phis.
func (e *Env) countingPhi(li *loopInfo, phi *ssa.Phi) (string, bool) {
	if b, ok := phi.Type().Underlying().(*types.Basic); !ok || b.Info()&types.IsInteger == 0 {
		return "", false
	}
	lo := ""
	for i, edge := range phi.Edges {
		pred := li.header.Preds[i]
		if !li.body[pred] {
			c, ok := edge.(*ssa.Const)
			if !ok || c.Value == nil {
				return "", false
			}
			n, exact := constant.Int64Val(constant.ToInt(c.Value))
			if !exact || (lo != "" && lo != fmt.Sprint(n)) {
				return "", false
			}
			lo = fmt.Sprint(n)
			if n < 0 {
				lo = fmt.Sprintf("(- %d)", -n)
			}
			continue
		}
		add, ok := edge.(*ssa.BinOp)
		if !ok || add.Op != token.ADD || add.X != ssa.Value(phi) {
			return "", false
		}
		k, ok := add.Y.(*ssa.Const)
		if !ok || k.Value == nil {
			return "", false
		}
		if n, exact := constant.Int64Val(constant.ToInt(k.Value)); !exact || n <= 0 {
			return "", false
		}
	}
	if lo == "" {
		return "", false
	}
	// compared with < or <= somewhere in the loop (so the increment cannot wrap)
	for blk := range li.body {
		for _, ins := range blk.Instrs {
			if b, ok := ins.(*ssa.BinOp); ok && (b.Op == token.LSS || b.Op == token.LEQ) && b.X == ssa.Value(phi) {
				return lo, true
			}
		}
	}
	return "", false
}

// countingUpper: for `for i := c; i < Y; i++` whose header compares the phi with Y, where Y
// is either defined outside the loop or computed by the side-effect-free prefix of the header
// (e.g. len(s.f) re-read every iteration), the term of Y in state st; "" if not of that shape.
func (e *Env) countingUpper(fr *Frame, li *loopInfo, phi *ssa.Phi, st *State) (ub string) {
	// step must be 1
	for i, edge := range phi.Edges {
		if !li.body[li.header.Preds[i]] {
			continue
		}
		add, ok := edge.(*ssa.BinOp)
		if !ok {
			return ""
		}
		k, ok := add.Y.(*ssa.Const)
		if !ok || k.Value == nil {
			return ""
		}
		if n, exact := constant.Int64Val(constant.ToInt(k.Value)); !exact || n != 1 {
			return ""
		}
	}
	var cmp *ssa.BinOp
	for _, ins := range li.header.Instrs {
		if b, ok := ins.(*ssa.BinOp); ok && b.Op == token.LSS && b.X == ssa.Value(phi) {
			cmp = b
		}
	}
	if cmp == nil {
		return ""
	}
	if iff, ok := li.header.Instrs[len(li.header.Instrs)-1].(*ssa.If); !ok || iff.Cond != ssa.Value(cmp) {
		return ""
	}
	if yi, ok := cmp.Y.(ssa.Instruction); !ok || !li.body[yi.Block()] {
		if bv, ok := e.get(fr, cmp.Y, st).(*Sc); ok && bv.Sort == sInt {
			return bv.T
		}
		return ""
	}
	// speculative evaluation of the header prefix (loads, field addresses, len/cap only)
	defer func() {
		if r := recover(); r != nil {
			ub = ""
		}
	}()
	saved := map[ssa.Value]Value{}
	var touched []ssa.Value
	tmp := st.clone()
	e.dry++
	defer func() {
		e.dry--
		for _, v := range touched {
			if old, had := saved[v]; had {
				fr.regs[v] = old
			} else {
				delete(fr.regs, v)
			}
		}
	}()
	for _, ins := range li.header.Instrs {
		if _, isPhi := ins.(*ssa.Phi); isPhi {
			continue
		}
		if ins == ssa.Instruction(cmp) {
			break
		}
		switch x := ins.(type) {
		case *ssa.UnOp, *ssa.FieldAddr, *ssa.Field, *ssa.DebugRef:
		case *ssa.Call:
			if b, ok := x.Call.Value.(*ssa.Builtin); !ok || (b.Name() != "len" && b.Name() != "cap") {
				return ""
			}
		default:
			return ""
		}
		if v, ok := ins.(ssa.Value); ok {
			if old, had := fr.regs[v]; had {
				saved[v] = old
			}
			touched = append(touched, v)
		}
		e.execInstr(fr, ins, tmp)
	}
	if bv, ok := e.get(fr, cmp.Y, tmp).(*Sc); ok && bv.Sort == sInt {
		return bv.T
	}
	return ""
}

func (e *Env) assumeShapeIf(cond string, v Value) {
	switch x := v.(type) {
	case *Struct:
		for _, f := range x.F {
			e.assumeShapeIf(cond, f)
		}
	case *Slice:
		e.assume(mkImp(cond, e.sliceWF(x)))
	}
}

// payloadAtEntry: the payload of an interface value that existed at function entry only
// refers to objects (and interface values) that existed at entry.
func (e *Env) payloadAtEntry(iface string, t types.Type, leaves []string) {
	if e.next0 == "" || e.quantDepth > 0 {
		return
	}
	e.declAtEntry()
	for i, l := range e.leavesOf(t) {
		if l.Sort != sInt {
			continue
		}
		if isRefType(l.Typ) || strings.HasSuffix(l.Path, "#arr") {
			e.assume(mkImp(sx("atentry", iface), sx("<", leaves[i], e.next0)))
		} else if isIfaceType(l.Typ) {
			e.assume(mkImp(sx("atentry", iface), sx("atentry", leaves[i])))
		}
	}
}

func sortedKeys2(m map[string]string) []string {
	var out []string
	for k := range m {
		out = append(out, k)
	}
	sort.Strings(out)
	return out
}

var symNumRe = regexp.MustCompile(`!([0-9]+)\|`)

func dedupe(xs []string) []string {
	seen := map[string]bool{}
	var out []string
	for _, x := range xs {
		if !seen[x] {
			seen[x] = true
			out = append(out, x)
		}
	}
	return out
}

// fieldNameOf names the struct field a value was loaded from (v = *(&x.f)), or "".
func fieldNameOf(v ssa.Value) string {
	if u, ok := v.(*ssa.UnOp); ok {
		if fa, ok := u.X.(*ssa.FieldAddr); ok {
			st := fa.X.Type().Underlying().(*types.Pointer).Elem().Underlying().(*types.Struct)
			return st.Field(fa.Field).Name()
		}
	}
	if f, ok := v.(*ssa.Field); ok {
		return f.X.Type().Underlying().(*types.Struct).Field(f.Field).Name()
	}
	return ""
}

// ghostAt runs the ghost emissions the contract of the function under verification attaches
// to this kind of instruction. Only in the function's own frame (not in inlined callees).
func (e *Env) ghostAt(fr *Frame, kind, arg string, ops []Value, st *State) {
	// the frame of the function under verification, or of a function literal nested in it
	// (closures passed to iterators); not in inlined callees
	top := fr
	for top.parent != nil {
		top = top.parent
	}
	if top.item == nil || len(top.item.GhostAt) == 0 || e.quantDepth > 0 {
		return
	}
	if fr != top {
		f := fr.fn
		for f.Parent() != nil {
			f = f.Parent()
		}
		if f != top.fn || fr.pure {
			return
		}
	}
	alts := strings.Split(arg, "|")
	for _, g := range top.item.GhostAt {
		if g.Kind != kind {
			continue
		}
		if g.Arg != "" {
			hit := false
			for _, a := range alts {
				if a == g.Arg {
					hit = true
				}
			}
			if !hit {
				continue
			}
		}
		vars := e.invVars(top)
		for i, o := range ops {
			vars[fmt.Sprintf("op%d", i)] = o
		}
		ctx := &SpecCtx{e: e, st: st, old: top.entrySt, vars: vars, pkg: e.w.typesPkg(top.item.Pkg)}
		if g.Assume != nil && g.Assert {
			t := ctx.boolTerm(g.Assume)
			e.ghostAsserts++
			e.oblige("assert", fmt.Sprintf("%s-%s#%d", kind, alts[0], e.ghostAsserts), st.pc, t)
			e.assume(mkImp(st.pc, t))
			continue
		}
		if g.Assume != nil {
			e.assume(mkImp(st.pc, ctx.boolTerm(g.Assume)))
			e.trust("assumed in " + top.fn.Name() + " at " + kind + " " + alts[0] + ": " + g.AssumeText)
			continue
		}
		e.emitFor(&Item{Emits: []*Emit{g.Emit}}, ctx, st)
	}
}
