package hotstuffpb

import "testing"

// Witnesses for two decoding defects fixed in /repo: a vote without signature and a
// proposal / fetched block without block body made the conversion functions panic
// (obligations PartialCertFromProto:pre:NewPartialCert and BlockFromProto:panic:nil).
func TestGovcFindingPartialCertWithoutSignature(t *testing.T) {
	defer func() {
		if r := recover(); r != nil {
			t.Fatalf("PartialCertFromProto panicked on a vote without signature: %v", r)
		}
	}()
	_ = PartialCertFromProto(&PartialCert{})
	_ = PartialCertFromProto(&PartialCert{Sig: &QuorumSignature{Sig: &QuorumSignature_BLS12Sig{BLS12Sig: &BLS12AggregateSignature{Sig: []byte{1, 2, 3}}}}})
}

func TestGovcFindingProposalWithoutBlock(t *testing.T) {
	defer func() {
		if r := recover(); r != nil {
			t.Fatalf("ProposalFromProto panicked on a proposal without block: %v", r)
		}
	}()
	if p := ProposalFromProto(&Proposal{}); p.Block != nil {
		t.Fatalf("expected no block")
	}
}
