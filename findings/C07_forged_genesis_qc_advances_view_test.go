package synchronizer

import (
	"testing"

	"github.com/relab/hotstuff"
	"github.com/relab/hotstuff/internal/proto/clientpb"
	"github.com/relab/hotstuff/internal/testutil"
	"github.com/relab/hotstuff/protocol"
	"github.com/relab/hotstuff/security/crypto"
)

// Witness for the defect fixed by "fix: a QC for the genesis block must claim view 0":
// VerifyQuorumCert accepted any certificate naming the genesis hash, whatever its view and
// signature, so an unsigned new-view message carrying QC{nil, view 1000, genesis} made an
// honest replica leave its view without any evidence (one view per message).
func TestGovcFindingForgedGenesisQCAdvancesView(t *testing.T) {
	set := testutil.NewEssentialsSet(t, 4, crypto.NameECDSA)
	subject := set[1] // not the leader (fixed leader 1), so advanceView does not need commands
	viewStates, err := protocol.NewViewStates(subject.Blockchain(), subject.Authority())
	if err != nil {
		t.Fatal(err)
	}
	synchronizer, _ := wireUpSynchronizer(t, subject, clientpb.NewCommandCache(1), viewStates)
	forged := hotstuff.NewQuorumCert(nil, 1000, hotstuff.GetGenesis().Hash())
	if err := subject.Authority().VerifyQuorumCert(forged); err == nil {
		t.Errorf("an unsigned QC for the genesis block labelled view 1000 verified")
	}
	before := viewStates.View()
	synchronizer.OnNewView(hotstuff.NewViewMsg{ID: 3, SyncInfo: hotstuff.NewSyncInfoWith(forged), FromNetwork: true})
	if got := viewStates.View(); got != before {
		t.Fatalf("a forged genesis QC moved the replica from view %d to view %d", before, got)
	}
}
