#!/usr/bin/env python3
"""Must-fail self-test of one property's check (thorough tier): every seeded change kept under
/verif/seeded/<id>-<n>/ (realistic property-breaking changes that compile and pass the test
suite, written by independent agents) is applied to a scratch copy of /repo's working tree and
the quick check is run on the copy; the check must report a violation. The outcome is added to
the evidence file as coverage.must_fail_selftest. A miss is a weakness of the check, not a
violation of the property: it is reported (SELFTEST-MISS) and does not change the exit status.
usage: selftest.py <property-id> <verif-root>"""
import json, os, shutil, subprocess, sys, tempfile, glob

prop, verif = sys.argv[1], sys.argv[2]
seeds = sorted(d for d in glob.glob(os.path.join(verif, 'seeded', prop + '-*')) if os.path.isdir(d))
res = {'seeds': 0, 'detected': 0, 'missed': [], 'not_applicable_to_this_tree': [], 'detail': {}}
if seeds:
    scr = tempfile.mkdtemp(prefix='govc_selftest_')
    try:
        repo = os.path.join(scr, 'repo')
        subprocess.run(['rsync', '-a', '--exclude', '.git', '/repo/', repo + '/'], check=True)
        env = dict(os.environ, GOFLAGS='-mod=mod', GOPROXY='off')
        for d in seeds:
            name = os.path.basename(d)
            patch = os.path.join(d, 'patch_current.diff')
            if not os.path.exists(patch):
                patch = os.path.join(d, 'patch.diff')
            if not os.path.exists(patch):
                continue
            if subprocess.run(['git', 'apply', '--check', patch], cwd=repo, capture_output=True).returncode != 0:
                res['not_applicable_to_this_tree'].append(name)
                continue
            subprocess.run(['git', 'apply', patch], cwd=repo, check=True)
            sv = os.path.join(scr, 'verif')
            shutil.rmtree(sv, ignore_errors=True)
            os.makedirs(os.path.join(sv, 'evidence')); os.makedirs(os.path.join(sv, 'replays'))
            shutil.copy(os.path.join(verif, 'known-findings.txt'), sv)
            shutil.copytree(os.path.join(verif, 'notes'), os.path.join(sv, 'notes'))
            shutil.copy(os.path.join(verif, 'MANIFEST.json'), sv)
            out = subprocess.run([os.path.join(verif, 'bin', 'govc'), 'check', '-prop', prop, '-tier', 'quick', '-repo', repo, '-verif', sv],
                                 cwd=repo, env=env, capture_output=True, text=True).stdout
            subprocess.run(['git', 'apply', '-R', patch], cwd=repo, check=True)
            viol = [l.split('replay=')[1].split()[0].rsplit('/', 1)[-1].replace('.json', '') for l in out.splitlines() if l.startswith('VIOLATION')]
            res['seeds'] += 1
            if viol:
                res['detected'] += 1
                res['detail'][name] = viol[:3]
            else:
                res['missed'].append(name)
                print('SELFTEST-MISS property=%s seed=%s (the check does not notice this seeded change)' % (prop, name))
    finally:
        shutil.rmtree(scr, ignore_errors=True)
# must-pass corpus: behaviour-preserving refactorings (renamed locals, swapped independent
# statements, equivalent expressions, temporaries, inverted if/else) written by independent
# agents; the check has to stay quiet on each. A false alarm is reported (SELFTEST-FALSE-ALARM)
# and recorded; it does not change the exit status of the run on the unchanged tree.
harm = sorted(d for d in glob.glob(os.path.join(verif, 'harmless', '*')) if os.path.isdir(d)
              and json.load(open(os.path.join(d, 'meta.json'))).get('property') == prop)
hres = {'refactorings': 0, 'quiet': 0, 'false_alarms': [], 'not_applicable_to_this_tree': []}
if harm:
    scr = tempfile.mkdtemp(prefix='govc_selftest_')
    try:
        repo = os.path.join(scr, 'repo')
        subprocess.run(['rsync', '-a', '--exclude', '.git', '/repo/', repo + '/'], check=True)
        env = dict(os.environ, GOFLAGS='-mod=mod', GOPROXY='off')
        for d in harm:
            name = os.path.basename(d)
            patch = os.path.join(d, 'patch.diff')
            if subprocess.run(['git', 'apply', '--check', patch], cwd=repo, capture_output=True).returncode != 0:
                hres['not_applicable_to_this_tree'].append(name)
                continue
            subprocess.run(['git', 'apply', patch], cwd=repo, check=True)
            sv = os.path.join(scr, 'verif')
            shutil.rmtree(sv, ignore_errors=True)
            os.makedirs(os.path.join(sv, 'evidence')); os.makedirs(os.path.join(sv, 'replays'))
            shutil.copy(os.path.join(verif, 'known-findings.txt'), sv)
            shutil.copytree(os.path.join(verif, 'notes'), os.path.join(sv, 'notes'))
            shutil.copy(os.path.join(verif, 'MANIFEST.json'), sv)
            out = subprocess.run([os.path.join(verif, 'bin', 'govc'), 'check', '-prop', prop, '-tier', 'quick', '-repo', repo, '-verif', sv],
                                 cwd=repo, env=env, capture_output=True, text=True).stdout
            subprocess.run(['git', 'apply', '-R', patch], cwd=repo, check=True)
            hres['refactorings'] += 1
            if any(l.startswith('VIOLATION') for l in out.splitlines()):
                hres['false_alarms'].append(name)
                print('SELFTEST-FALSE-ALARM property=%s refactoring=%s (the check alarms on a behaviour-preserving change)' % (prop, name))
            else:
                hres['quiet'] += 1
    finally:
        shutil.rmtree(scr, ignore_errors=True)
ev = os.path.join(verif, 'evidence', prop + '.json')
if os.path.exists(ev):
    e = json.load(open(ev))
    e.setdefault('coverage', {})['must_fail_selftest'] = res
    e['coverage']['must_pass_selftest'] = hres
    json.dump(e, open(ev, 'w'), indent=1)
print('selftest %s: quiet on %d of %d behaviour-preserving refactorings' % (prop, hres['quiet'], hres['refactorings']))
print('selftest %s: %d of %d seeded changes detected%s' % (prop, res['detected'], res['seeds'],
      ('; not applicable to this tree: ' + ', '.join(res['not_applicable_to_this_tree'])) if res['not_applicable_to_this_tree'] else ''))
