package main

// Evaluation of spec expressions to symbolic values in a state.

import (
	"fmt"
	"go/ast"
	"go/constant"
	"go/parser"
	"go/types"
	"sort"
	"strings"
)

type SpecCtx struct {
	e    *Env
	st   *State
	old  *State
	vars map[string]Value
	pkg  *types.Package
	now  *State  // inside old(): the state old() was entered from (for now(e))
	rec  *recDef // non-nil while translating the body of a recursive spec function
	guard string // condition under which the sub-expression being evaluated matters
}

// NilV is the untyped nil of spec expressions.
type NilV struct{}

func (*NilV) vtype() types.Type { return types.Typ[types.UntypedNil] }

// TypeV is a type used as a value (conversion callee / zero literal).
type TypeV struct{ T types.Type }

func (t *TypeV) vtype() types.Type { return t.T }

// PkgV is a package name in a qualified identifier.
type PkgV struct{ P *types.Package }

func (*PkgV) vtype() types.Type { return types.Typ[types.Invalid] }

type recDef struct {
	item     *Item
	name     string
	heapNames []string          // ordered heap params
	heapSort  map[string]string // name -> sort
	defined   bool
	inProgress bool
	resSort   string
	resType   types.Type
	paramTypes []types.Type
	paramSyms  []string
	paramSorts []string
	body       string
	decrTerm   string
	calls      []recCall
	collectCalls bool
	innerOf    map[string]string // element heap array -> parameter symbol of the only backing array read
}

func specFail(format string, a ...any) {
	panic(unsupported{"spec: " + fmt.Sprintf(format, a...)})
}

func (c *SpecCtx) under(g string) *SpecCtx {
	if c.rec == nil || !c.rec.collectCalls {
		return c
	}
	n := *c
	n.guard = mkAnd(c.guardTerm(), g)
	return &n
}

func (c *SpecCtx) with(vars map[string]Value) *SpecCtx {
	n := *c
	n.vars = vars
	return &n
}

func (c *SpecCtx) inState(st *State) *SpecCtx {
	n := *c
	n.st = st
	return &n
}

// resolveType resolves a type expression string in the package scope.
func (w *World) resolveType(pkg *types.Package, s string) types.Type {
	x, err := parser.ParseExpr(s)
	if err != nil {
		specFail("bad type %q: %v", s, err)
	}
	return w.resolveTypeExpr(pkg, x, s)
}

func (w *World) resolveTypeExpr(pkg *types.Package, x ast.Expr, s string) types.Type {
	switch t := x.(type) {
	case *ast.Ident:
		if o := pkg.Scope().Lookup(t.Name); o != nil {
			if tn, ok := o.(*types.TypeName); ok {
				return tn.Type()
			}
		}
		if o := types.Universe.Lookup(t.Name); o != nil {
			if tn, ok := o.(*types.TypeName); ok {
				return tn.Type()
			}
		}
		specFail("unknown type %q in %s", t.Name, pkg.Path())
	case *ast.SelectorExpr:
		if id, ok := t.X.(*ast.Ident); ok {
			if p := w.findImport(pkg, id.Name); p != nil {
				if o := p.Scope().Lookup(t.Sel.Name); o != nil {
					if tn, ok := o.(*types.TypeName); ok {
						return tn.Type()
					}
				}
			}
		}
		specFail("unknown type %q", s)
	case *ast.StarExpr:
		return types.NewPointer(w.resolveTypeExpr(pkg, t.X, s))
	case *ast.ArrayType:
		if t.Len == nil {
			return types.NewSlice(w.resolveTypeExpr(pkg, t.Elt, s))
		}
		specFail("array types not supported in specs: %q", s)
	case *ast.MapType:
		return types.NewMap(w.resolveTypeExpr(pkg, t.Key, s), w.resolveTypeExpr(pkg, t.Value, s))
	case *ast.InterfaceType:
		return types.NewInterfaceType(nil, nil)
	case *ast.ParenExpr:
		return w.resolveTypeExpr(pkg, t.X, s)
	case *ast.IndexExpr:
		gen := w.resolveTypeExpr(pkg, t.X, s)
		arg := w.resolveTypeExpr(pkg, t.Index, s)
		inst, err := types.Instantiate(nil, gen, []types.Type{arg}, false)
		if err != nil {
			specFail("cannot instantiate %q: %v", s, err)
		}
		return inst
	}
	specFail("unsupported type expression %q", s)
	return nil
}

func (w *World) findImport(pkg *types.Package, name string) *types.Package {
	for _, p := range pkg.Imports() {
		if p.Name() == name {
			return p
		}
	}
	// also allow any loaded package by name (specs may mention packages the file does not import)
	for _, p := range w.allTypesPkgs {
		if p.Name() == name {
			return p
		}
	}
	return nil
}

func scInt(t string) *Sc { return &Sc{T: t, Sort: sInt, Typ: types.Typ[types.UntypedInt]} }

func (c *SpecCtx) eval(x *SExpr) Value {
	e := c.e
	switch x.Op {
	case "paren":
		return c.eval(x.Args[0])
	case "num":
		return scInt(x.Name)
	case "str":
		return &Sc{T: e.strID(x.Name), Sort: sInt, Typ: types.Typ[types.String]}
	case "ident":
		return c.ident(x.Name)
	case "sel":
		base := c.eval(x.Args[0])
		return c.selectField(base, x.Name)
	case "index":
		base := c.eval(x.Args[0])
		idx := c.eval(x.Args[1])
		return c.index(base, idx)
	case "unop":
		return c.unop(x)
	case "binop":
		return c.binop(x)
	case "ite":
		cnd := c.boolTerm(x.Args[0])
		a := c.under(cnd).eval(x.Args[1])
		b := c.under(mkNot(cnd)).eval(x.Args[2])
		a, b = c.unify(a, b)
		return c.mergeNoName(cnd, a, b)
	case "forall", "exists":
		return c.quant(x)
	case "call":
		return c.call(x)
	case "mcall":
		return c.mcall(x)
	case "zero":
		tv := c.eval(x.Args[0])
		t, ok := tv.(*TypeV)
		if !ok {
			specFail("T{} needs a type: %s", x)
		}
		return e.zeroValue(t.T)
	}
	specFail("cannot evaluate %s (%s)", x, x.Op)
	return nil
}

func (c *SpecCtx) mergeNoName(cnd string, a, b Value) Value {
	c.e.quantDepth++
	defer func() { c.e.quantDepth-- }()
	return c.e.merge(cnd, a, b)
}

func (c *SpecCtx) boolTerm(x *SExpr) string {
	v := c.eval(x)
	s, ok := v.(*Sc)
	if !ok || s.Sort != sBool {
		specFail("expected a boolean: %s", x)
	}
	return s.T
}

func (c *SpecCtx) ident(name string) Value {
	if v, ok := c.vars[name]; ok {
		return v
	}
	switch name {
	case "true":
		return boolV(tTrue)
	case "false":
		return boolV(tFalse)
	case "nil":
		return &NilV{}
	}
	if o := c.pkg.Scope().Lookup(name); o != nil {
		switch ob := o.(type) {
		case *types.Const:
			return c.constValue(ob)
		case *types.TypeName:
			return &TypeV{ob.Type()}
		case *types.Var:
			// package-level variable: modelled as a global cell
			g := c.e.w.globalFor(ob)
			if g != nil {
				return c.e.load(c.st, c.e.globalPtr(g))
			}
		}
	}
	if o := types.Universe.Lookup(name); o != nil {
		if tn, ok := o.(*types.TypeName); ok {
			return &TypeV{tn.Type()}
		}
	}
	if p := c.e.w.findImport(c.pkg, name); p != nil {
		return &PkgV{p}
	}
	specFail("unknown identifier %q", name)
	return nil
}

func (c *SpecCtx) constValue(ob *types.Const) Value {
	v := ob.Val()
	switch v.Kind() {
	case constant.Int:
		return &Sc{T: mkBig(v.ExactString()), Sort: sInt, Typ: ob.Type()}
	case constant.Bool:
		if constant.BoolVal(v) {
			return boolV(tTrue)
		}
		return boolV(tFalse)
	case constant.String:
		return &Sc{T: c.e.strID(constant.StringVal(v)), Sort: sInt, Typ: ob.Type()}
	}
	specFail("constant %s of unsupported kind", ob.Name())
	return nil
}

func fieldIndex(t types.Type, name string) (int, *types.Struct) {
	st, ok := t.Underlying().(*types.Struct)
	if !ok {
		return -1, nil
	}
	for i := 0; i < st.NumFields(); i++ {
		if st.Field(i).Name() == name {
			return i, st
		}
	}
	return -1, st
}

func (c *SpecCtx) selectField(base Value, name string) Value {
	switch b := base.(type) {
	case *PkgV:
		if o := b.P.Scope().Lookup(name); o != nil {
			switch ob := o.(type) {
			case *types.Const:
				return c.constValue(ob)
			case *types.TypeName:
				return &TypeV{ob.Type()}
			case *types.Var:
				// package-level variable of another package: a global cell
				gname := q("G!" + b.P.Path() + "." + name)
				if !c.e.declared[gname] {
					c.e.declared[gname] = true
					c.e.sess.Cmd("(declare-const " + gname + " Int)")
					c.e.sess.Cmd("(assert (< " + gname + " 0))")
				}
				return c.e.load(c.st, &Ptr{Kind: "obj", Ref: gname, Root: ob.Type()})
			}
		}
		specFail("unknown %s.%s", b.P.Name(), name)
	case *Ptr:
		pt := b.pointee()
		i, _ := fieldIndex(pt, name)
		if i < 0 {
			specFail("no field %q in %v", name, pt)
		}
		fp := &Ptr{Kind: b.Kind, Ref: b.Ref, Idx: b.Idx, Root: b.Root, Path: append(append([]int(nil), b.Path...), i)}
		return c.e.load(c.st, fp)
	case *Struct:
		i, _ := fieldIndex(b.Typ, name)
		if i < 0 {
			specFail("no field %q in %v", name, b.Typ)
		}
		return b.F[i]
	}
	specFail("cannot select .%s from %T", name, base)
	return nil
}

func (c *SpecCtx) index(base, idx Value) Value {
	e := c.e
	switch b := base.(type) {
	case *Slice:
		i := c.intTerm(idx)
		et := b.Typ.Underlying().(*types.Slice).Elem()
		p := &Ptr{Kind: "elem", Ref: b.Arr, Idx: ixTerm(b.Off, i), Root: et}
		return e.load(c.st, p)
	case *MapV:
		kt := b.Typ.Underlying().(*types.Map).Key()
		v, _ := e.mapLookup(c.st, b, c.coerce(idx, kt))
		return v
	case *Ptr:
		if b.Kind == "arr" {
			at := b.Root.Underlying().(*types.Array)
			return e.load(c.st, &Ptr{Kind: "elem", Ref: b.Ref, Idx: c.intTerm(idx), Root: at.Elem()})
		}
	}
	specFail("cannot index %T", base)
	return nil
}

// ixTerm is the element index of position i in a slice that starts at offset off of its
// backing array. It is off+i, but written with the function ix (axiom: ix(o,i) = o+i) unless
// off is the literal 0: z3 reorders the arguments of + when it normalises sums, so a trigger
// (select row (+ off $j)) matches or fails depending on unrelated terms in the query.
func ixTerm(off, i string) string {
	if off == "0" {
		return i
	}
	if i == "0" {
		return off
	}
	if isNumeral(off) && isNumeral(i) {
		return fmt.Sprint(atoi(off) + atoi(i))
	}
	return sx("ix", off, i)
}

func addTerms(a, b string) string {
	if a == "0" {
		return b
	}
	if b == "0" {
		return a
	}
	return sx("+", a, b)
}

func (c *SpecCtx) intTerm(v Value) string {
	s, ok := v.(*Sc)
	if !ok || s.Sort != sInt {
		specFail("expected an integer, got %T", v)
	}
	return s.T
}

// coerce adapts untyped literals / nil to the wanted type.
func (c *SpecCtx) coerce(v Value, t types.Type) Value {
	switch x := v.(type) {
	case *NilV:
		return c.e.zeroValue(t)
	case *Sc:
		want := c.e.scalarSort(t)
		if x.Sort == sInt && want == sBV8 {
			return &Sc{T: intLitToBV8(x.T), Sort: sBV8, Typ: t}
		}
		return &Sc{T: x.T, Sort: x.Sort, Typ: t}
	}
	return v
}

func intLitToBV8(t string) string {
	var n int
	if _, err := fmt.Sscanf(t, "%d", &n); err != nil || n < 0 || n > 255 {
		specFail("cannot use %s as a byte literal", t)
	}
	return fmt.Sprintf("#x%02x", n)
}

// unify makes two operands comparable (nil vs reference, int literal vs byte).
func (c *SpecCtx) unify(a, b Value) (Value, Value) {
	if _, ok := a.(*NilV); ok {
		if _, ok2 := b.(*NilV); ok2 {
			return boolV(tTrue), boolV(tTrue)
		}
		return c.coerce(a, b.vtype()), b
	}
	if _, ok := b.(*NilV); ok {
		return a, c.coerce(b, a.vtype())
	}
	sa, oka := a.(*Sc)
	sb, okb := b.(*Sc)
	if oka && okb && sa.Sort != sb.Sort {
		if sa.Sort == sBV8 && sb.Sort == sInt {
			return a, c.coerce(b, sa.Typ)
		}
		if sb.Sort == sBV8 && sa.Sort == sInt {
			return c.coerce(a, sb.Typ), b
		}
		if c.e.bvfp && (sa.Sort == sBV64 || sb.Sort == sBV64) {
			return a, b // literals are converted by bvSpecBinop / eqBV
		}
		specFail("operands of different sorts: %s vs %s", sa.Sort, sb.Sort)
	}
	return a, b
}

func (c *SpecCtx) unop(x *SExpr) Value {
	switch x.Name {
	case "!":
		return boolV(mkNot(c.boolTerm(x.Args[0])))
	case "-":
		v := c.eval(x.Args[0])
		return scInt(sx("-", c.intTerm(v)))
	case "*":
		v := c.eval(x.Args[0])
		p, ok := v.(*Ptr)
		if !ok {
			specFail("cannot dereference %T", v)
		}
		return c.e.load(c.st, p)
	case "&":
		// &x.f where x.f is a struct-typed field reached through a pointer: the interior pointer
		if loc := c.locOf(x.Args[0]); loc != nil {
			if _, isStruct := loc.pointee().Underlying().(*types.Struct); isStruct {
				return loc
			}
		}
		specFail("address-of is only supported for struct-typed fields in specs: %s", x)
	}
	specFail("unary %s", x.Name)
	return nil
}

func (c *SpecCtx) binop(x *SExpr) Value {
	op := x.Name
	switch op {
	case "&&":
		l := c.boolTerm(x.Args[0])
		return boolV(mkAnd(l, c.under(l).boolTerm(x.Args[1])))
	case "||":
		l := c.boolTerm(x.Args[0])
		return boolV(mkOr(l, c.under(mkNot(l)).boolTerm(x.Args[1])))
	case "==>":
		l := c.boolTerm(x.Args[0])
		return boolV(mkImp(l, c.under(l).boolTerm(x.Args[1])))
	case "<==>":
		return boolV(mkEq(c.boolTerm(x.Args[0]), c.boolTerm(x.Args[1])))
	}
	a := c.eval(x.Args[0])
	b := c.eval(x.Args[1])
	a, b = c.unify(a, b)
	if c.e.bvfp {
		if sa, ok := a.(*Sc); ok {
			if sb, ok := b.(*Sc); ok && (sa.Sort == sBV64 || sb.Sort == sBV64) && (op == "==" || op == "!=") {
				d := c.e.bvSpecBinop("-", sa, sb).(*Sc).T
				eq := mkEq(d, "(_ bv0 64)")
				if op == "!=" {
					eq = mkNot(eq)
				}
				return boolV(eq)
			}
		}
	}
	switch op {
	case "==":
		return boolV(c.e.valueEq(a, b))
	case "!=":
		return boolV(mkNot(c.e.valueEq(a, b)))
	}
	sa, oka := a.(*Sc)
	sb, okb := b.(*Sc)
	if !oka || !okb {
		specFail("operator %s on non-scalars in %s", op, x)
	}
	if sa.Sort == sBV8 {
		switch op {
		case "&":
			return &Sc{T: sx("bvand", sa.T, sb.T), Sort: sBV8, Typ: sa.Typ}
		case "|":
			return &Sc{T: sx("bvor", sa.T, sb.T), Sort: sBV8, Typ: sa.Typ}
		case "^":
			return &Sc{T: sx("bvxor", sa.T, sb.T), Sort: sBV8, Typ: sa.Typ}
		case "<":
			return boolV(sx("bvult", sa.T, sb.T))
		case "<=":
			return boolV(sx("bvule", sa.T, sb.T))
		case ">":
			return boolV(sx("bvugt", sa.T, sb.T))
		case ">=":
			return boolV(sx("bvuge", sa.T, sb.T))
		}
		specFail("operator %s on bytes (mode bytebv)", op)
	}
	if c.e.bvfp && (sa.Sort != sInt || sb.Sort != sInt) {
		return c.e.bvSpecBinop(op, sa, sb)
	}
	if isNumeral(sa.T) && isNumeral(sb.T) && len(sa.T) < 18 && len(sb.T) < 18 {
		x, y := int64(atoi(sa.T)), int64(atoi(sb.T))
		switch op {
		case "+":
			return scInt(mkInt(x + y))
		case "-":
			return scInt(mkInt(x - y))
		case "*":
			if x < 1<<30 && y < 1<<30 {
				return scInt(mkInt(x * y))
			}
		}
	}
	typ := sa.Typ
	if b, ok := typ.(*types.Basic); ok && b.Kind() == types.UntypedInt {
		typ = sb.Typ
	}
	switch op {
	case "+":
		return &Sc{T: sx("+", sa.T, sb.T), Sort: sInt, Typ: typ}
	case "-":
		return &Sc{T: sx("-", sa.T, sb.T), Sort: sInt, Typ: typ}
	case "*":
		return &Sc{T: sx("*", sa.T, sb.T), Sort: sInt, Typ: typ}
	case "/":
		if !isNumeral(sb.T) {
			qt, _ := c.e.tdivmod(sa.T, sb.T)
			return &Sc{T: qt, Sort: sInt, Typ: typ}
		}
		return &Sc{T: truncDiv(sa.T, sb.T), Sort: sInt, Typ: typ}
	case "%":
		if !isNumeral(sb.T) {
			_, rt := c.e.tdivmod(sa.T, sb.T)
			return &Sc{T: rt, Sort: sInt, Typ: typ}
		}
		return &Sc{T: truncMod(sa.T, sb.T), Sort: sInt, Typ: typ}
	case "<":
		return boolV(sx("<", sa.T, sb.T))
	case "<=":
		return boolV(sx("<=", sa.T, sb.T))
	case ">":
		return boolV(sx(">", sa.T, sb.T))
	case ">=":
		return boolV(sx(">=", sa.T, sb.T))
	}
	specFail("operator %s", op)
	return nil
}

// truncDiv is Go's truncated division on mathematical integers (SMT div is floored
// for positive divisors / Euclidean).
func truncDiv(a, b string) string {
	// a/b truncated: if a >= 0 then (div a b) else -(div (-a) b)   [valid for b > 0 and b < 0 with Euclidean div]
	return mkIte(sx(">=", a, "0"), sx("div", a, b), sx("-", sx("div", sx("-", a), b)))
}

func truncMod(a, b string) string {
	return sx("-", a, sx("*", b, truncDiv(a, b)))
}

func (c *SpecCtx) quant(x *SExpr) Value {
	e := c.e
	vars := make(map[string]Value, len(c.vars)+len(x.Bound))
	for k, v := range c.vars {
		vars[k] = v
	}
	var decls []string
	var guards []string
	for _, b := range x.Bound {
		t := e.w.resolveType(c.pkg, b.TypeStr)
		ls := e.leavesOf(t)
		ts := make([]string, len(ls))
		for i, l := range ls {
			n := q("$" + b.Name + sanitize(l.Path))
			ts[i] = n
			decls = append(decls, "("+n+" "+l.Sort+")")
			if r := e.rangeFact(n, l); r != tTrue {
				guards = append(guards, r)
			}
		}
		vars[b.Name] = e.fromLeaves(t, ts)
	}
	e.quantDepth++
	inner := c.with(vars)
	body := inner.boolTerm(x.Args[0])
	var pats []string
	for _, tr := range x.Trig {
		var ps []string
		for _, t := range tr {
			if et, ok := inner.packedElemTerm(t); ok {
				ps = append(ps, et)
				continue
			}
			ps = append(ps, e.flatten(inner.eval(t))...)
		}
		var pp []string
		for _, p := range ps {
			for _, q := range patternTerms(stripBoundItes(simplifySelStore(p))) {
				pp = append(pp, e.hoistItes(q))
			}
		}
		if len(pp) > 0 {
			pats = append(pats, ":pattern ("+strings.Join(pp, " ")+")")
		}
	}
	e.quantDepth--
	g := mkAnd(guards...)
	var f string
	if x.Op == "forall" {
		f = mkImp(g, body)
	} else {
		f = mkAnd(g, body)
	}
	if len(pats) > 0 {
		f = "(! " + f + " " + strings.Join(pats, " ") + ")"
	}
	return boolV("(" + x.Op + " (" + strings.Join(decls, " ") + ") " + f + ")")
}

func (c *SpecCtx) call(x *SExpr) Value {
	e := c.e
	switch x.Name {
	case "old":
		if c.old == nil {
			specFail("old() outside a two-state context")
		}
		oc := c.inState(c.old)
		if c.now == nil {
			oc.now = c.st
		}
		return oc.eval(x.Args[0])
	case "now":
		// now(e) inside old(...): e is evaluated in the current state (e.g. the key of an old map)
		if c.now == nil {
			return c.eval(x.Args[0])
		}
		nc := c.inState(c.now)
		nc.now = nil
		return nc.eval(x.Args[0])
	case "len", "cap":
		v := c.eval(x.Args[0])
		switch s := v.(type) {
		case *Slice:
			if x.Name == "len" {
				return scInt(s.Len)
			}
			return scInt(s.Cap)
		case *MapV:
			return scInt(e.mapLen(c.st, s))
		case *Sc:
			if b, ok := s.Typ.Underlying().(*types.Basic); ok && b.Info()&types.IsString != 0 {
				return scInt(sx("strlen", s.T))
			}
		}
		specFail("len of %T", v)
	case "has":
		m, ok := c.eval(x.Args[0]).(*MapV)
		if !ok {
			specFail("has(m,k) needs a map")
		}
		kt := m.Typ.Underlying().(*types.Map).Key()
		_, in := e.mapLookup(c.st, m, c.coerce(c.eval(x.Args[1]), kt))
		return boolV(in)
	case "fresh":
		v := c.eval(x.Args[0])
		r := e.flatten(v)[0]
		if c.old == nil {
			specFail("fresh() outside a two-state context")
		}
		return boolV(mkAnd(sx(">=", r, c.old.next), sx("<", r, c.st.next)))
	case "as", "istype":
		iv, ok := c.eval(x.Args[0]).(*Iface)
		if !ok {
			specFail("%s needs an interface value", x.Name)
		}
		t := e.w.resolveType(c.pkg, x.Args[1].String())
		e.declIface()
		if x.Name == "istype" {
			return boolV(mkEq(sx("dyntag", iv.T), e.typeTag(t)))
		}
		_, unbox := e.boxFuncs(t)
		var ts []string
		for _, u := range unbox {
			ts = append(ts, sx(u, iv.T))
		}
		return e.fromLeaves(t, ts)
	case "preserved":
		// preserved(T): every location of type T allocated before the old state is unchanged
		// since then (T a slice type: its backing arrays; T a struct type: its fields)
		if c.old == nil {
			specFail("preserved() outside a two-state context")
		}
		t := e.w.resolveType(c.pkg, x.Args[0].String())
		var names, sorts []string
		if st, ok := t.Underlying().(*types.Slice); ok {
			ns, ss, _ := e.elemArrays(st.Elem())
			names, sorts = ns, ss
		} else {
			for _, l := range e.leavesOf(t) {
				n, srt := e.locName(&Ptr{Kind: "obj", Root: t}, l)
				names, sorts = append(names, n), append(sorts, srt)
			}
		}
		var cs []string
		for i, n := range names {
			a1 := e.heapGet(c.st, n, sorts[i])
			a0 := e.heapGet(c.old, n, sorts[i])
			if strings.HasPrefix(a1, "(") {
				a1 = e.maybeNameForce(a1, sorts[i], "arr")
			}
			if a1 == a0 {
				continue
			}
			cs = append(cs, fmt.Sprintf("(forall ((|$r| Int)) (! (=> (< |$r| %s) (= (select %s |$r|) (select %s |$r|))) :pattern ((select %s |$r|))))", c.old.next, a1, a0, a1))
		}
		return boolV(mkAnd(cs...))
	case "content":
		// content(b): the byte string held by slice b, as an uninterpreted function of the
		// backing array, offset and length (equal arguments give equal contents)
		b, ok := c.eval(x.Args[0]).(*Slice)
		if !ok {
			specFail("content needs a byte slice")
		}
		return scInt(e.contentTerm(c.st, b))
	case "tracelen":
		return scInt(e.traceLenTerm(c.st, x.Args[0].String()))
	case "traceat":
		// traceat(ch, k, i): component k of the record at position i of channel ch
		k := atoi(x.Args[1].String())
		return scInt(e.traceAt(c.st, x.Args[0].String(), k, c.intTerm(c.eval(x.Args[2]))))
	case "traceev":
		// traceev(ch, k, i): component k at position i, as an interface value (event)
		k := atoi(x.Args[1].String())
		return &Iface{T: e.traceAt(c.st, x.Args[0].String(), k, c.intTerm(c.eval(x.Args[2]))), Typ: types.NewInterfaceType(nil, nil)}
	case "disjoint":
		a, ok1 := c.eval(x.Args[0]).(*Slice)
		b, ok2 := c.eval(x.Args[1]).(*Slice)
		if !ok1 || !ok2 {
			specFail("disjoint needs two slices")
		}
		return boolV(mkNot(mkEq(a.Arr, b.Arr)))
	case "sha256", "abytes", "bstr":
		e.declBytesFuncs()
		v := c.eval(x.Args[0])
		t := e.flatten(v)[0]
		res := sx("|"+x.Name+"!|", t)
		if x.Name == "bstr" {
			return &Sc{T: res, Sort: sInt, Typ: types.Typ[types.String]}
		}
		return scInt(res)
	case "tsecs", "tnanos":
		return scInt(e.timeFn(x.Name, c.eval(x.Args[0])))
	case "typeof":
		// typeof(x): the reflect.Type of the dynamic type of interface value x (nil for nil)
		iv, ok := c.eval(x.Args[0]).(*Iface)
		if !ok {
			specFail("typeof needs an interface value")
		}
		e.declIface()
		named := e.w.resolveType(c.pkg, "reflect.Type")
		return &Iface{T: mkIte(mkEq(iv.T, "0"), "0", e.rtypeTerm(sx("dyntag", iv.T))), Typ: named}
	case "visited":
		// visited(n, k): k has been produced by the n-th range-over-map of the function
		top := e.cur
		if top == nil {
			specFail("visited() outside a function")
		}
		name := fmt.Sprintf("V!%s!%s", sanitize(top.fn.Name()), x.Args[0].String())
		srt, ok := e.heapSorts[name]
		if !ok {
			specFail("visited(%s, ..): no such map iteration yet", x.Args[0].String())
		}
		arr, ok := c.st.heap[name]
		if !ok {
			arr = constArray(srt, tFalse)
		}
		kv := c.eval(x.Args[1])
		return boolV(mkSelect(arr, e.flatten(kv)[0]))
	case "aput":
		// aput(x, lo, width, v): the [N]byte value x with the little-endian bytes of v at lo
		e.declAput()
		return scInt(sx("|aput!|", e.flatten(c.eval(x.Args[0]))[0], c.intTerm(c.eval(x.Args[1])), c.intTerm(c.eval(x.Args[2])), c.intTerm(c.eval(x.Args[3]))))
	case "afrom":
		e.declBytesFuncs()
		return scInt(sx("|afrom!|", c.intTerm(c.eval(x.Args[0])), c.intTerm(c.eval(x.Args[1])), e.flatten(c.eval(x.Args[2]))[0]))
	case "bchain":
		// bchain(b): the byte string built so far by the *strings.Builder b
		p, ok := c.eval(x.Args[0]).(*Ptr)
		if !ok {
			specFail("bchain needs a *strings.Builder")
		}
		return scInt(e.load(c.st, builderChainPtr(p)).(*Slice).Arr)
	case "bcat":
		e.declBytesFuncs()
		return scInt(sx("|bcat!|", c.intTerm(c.eval(x.Args[0])), c.intTerm(c.eval(x.Args[1])), c.intTerm(c.eval(x.Args[2]))))
	case "asptr":
		// asptr(x, T): the integer x (e.g. a trace component) as a *T
		t := e.w.resolveType(c.pkg, x.Args[1].String())
		return &Ptr{Kind: "obj", Ref: c.intTerm(c.eval(x.Args[0])), Root: t, Typ: types.NewPointer(t)}
	case "sameslice":
		// sameslice(a, b): the same slice header (backing array, offset, length)
		a, ok1 := c.eval(x.Args[0]).(*Slice)
		b, ok2 := c.eval(x.Args[1]).(*Slice)
		if !ok1 || !ok2 {
			specFail("sameslice needs two slices")
		}
		return boolV(mkAnd(mkEq(a.Arr, b.Arr), mkEq(a.Off, b.Off), mkEq(a.Len, b.Len)))
	case "samearr":
		a, ok1 := c.eval(x.Args[0]).(*Slice)
		b, ok2 := c.eval(x.Args[1]).(*Slice)
		if !ok1 || !ok2 {
			specFail("samearr needs two slices")
		}
		return boolV(mkAnd(mkEq(a.Arr, b.Arr), mkEq(a.Off, b.Off)))
	case "allocated":
		v := c.eval(x.Args[0])
		r := e.flatten(v)[0]
		return boolV(mkAnd(sx("<", "0", r), sx("<", r, c.st.next)))
	case "wrap64", "wrapu64", "wrapu32", "wrap32", "wrapu8":
		v := c.intTerm(c.eval(x.Args[0]))
		kind := map[string]types.BasicKind{"wrap64": types.Int64, "wrapu64": types.Uint64, "wrapu32": types.Uint32, "wrap32": types.Int32, "wrapu8": types.Uint8}[x.Name]
		return scInt(wrapTerm(v, types.Typ[kind]))
	case "min", "max":
		a := c.intTerm(c.eval(x.Args[0]))
		b := c.intTerm(c.eval(x.Args[1]))
		if x.Name == "min" {
			return scInt(mkIte(sx("<=", a, b), a, b))
		}
		return scInt(mkIte(sx(">=", a, b), a, b))
	case "dyntype":
		// dyntype(x) == "pkg.T" style tests are written istype(x, T)
		specFail("use istype(x, T)")
	case "pow2":
		a := c.intTerm(c.eval(x.Args[0]))
		return scInt(pow2Table(a))
	}
	// pure spec function?
	if it := e.w.pureFunc(c.pkg, x.Name); it != nil {
		return c.callPure(it, x.Args)
	}
	// conversion?
	if o := c.lookupType(x.Name); o != nil && len(x.Args) == 1 {
		return c.convert(c.eval(x.Args[0]), o)
	}
	// real function of the package
	if fn := e.w.findFunc(c.pkg.Path(), x.Name); fn != nil {
		var args []Value
		for i, a := range x.Args {
			args = append(args, c.coerce(c.eval(a), fn.Params[i].Type()))
		}
		return e.specCallReal(c, fn, args)
	}
	specFail("unknown function %q", x.Name)
	return nil
}

func pow2Table(a string) string {
	if isNumeral(a) && atoi(a) < 64 {
		return new2(atoi(a))
	}
	t := "0"
	for k := 63; k >= 0; k-- {
		t = mkIte(mkEq(a, fmt.Sprint(k)), new2(k), t)
	}
	return t
}

func new2(k int) string {
	v := uint64(1) << uint(k)
	return fmt.Sprint(v)
}

func (c *SpecCtx) lookupType(name string) types.Type {
	if o := c.pkg.Scope().Lookup(name); o != nil {
		if tn, ok := o.(*types.TypeName); ok {
			return tn.Type()
		}
	}
	if o := types.Universe.Lookup(name); o != nil {
		if tn, ok := o.(*types.TypeName); ok {
			return tn.Type()
		}
	}
	return nil
}

func (c *SpecCtx) convert(v Value, t types.Type) Value {
	switch x := v.(type) {
	case *Sc:
		if x.Sort == sInt {
			if c.e.scalarSort(t) == sBV8 {
				return &Sc{T: intLitToBV8(x.T), Sort: sBV8, Typ: t}
			}
			// spec integers are mathematical: conversions are the identity
			return &Sc{T: x.T, Sort: c.e.scalarSort(t), Typ: t}
		}
		if x.Sort == sBV8 {
			if c.e.scalarSort(t) == sBV8 {
				return &Sc{T: x.T, Sort: sBV8, Typ: t}
			}
			return &Sc{T: bv8ToInt(x.T), Sort: sInt, Typ: t}
		}
	case *NilV:
		return c.e.zeroValue(t)
	}
	return v
}

func bv8ToInt(b string) string {
	var parts []string
	for i := 0; i < 8; i++ {
		parts = append(parts, mkIte(mkEq(sx("bvand", b, fmt.Sprintf("#x%02x", 1<<i)), "#x00"), "0", fmt.Sprint(1<<i)))
	}
	return sx("+", parts...)
}

func (c *SpecCtx) mcall(x *SExpr) Value {
	e := c.e
	recv := c.eval(x.Args[0])
	if p, ok := recv.(*PkgV); ok {
		// qualified function: pure function of another package, conversion, or real function
		if it := e.w.pureFunc(p.P, x.Name); it != nil {
			return c.callPure(it, x.Args[1:])
		}
		if o := p.P.Scope().Lookup(x.Name); o != nil {
			if tn, ok := o.(*types.TypeName); ok && len(x.Args) == 2 {
				return c.convert(c.eval(x.Args[1]), tn.Type())
			}
		}
		if fn := e.w.findFunc(p.P.Path(), x.Name); fn != nil {
			var args []Value
			for i, a := range x.Args[1:] {
				args = append(args, c.coerce(c.eval(a), fn.Params[i].Type()))
			}
			return e.specCallReal(c, fn, args)
		}
		specFail("unknown %s.%s", p.P.Name(), x.Name)
	}
	// method of the real code, executed symbolically (must be loop-free and pure)
	fn := e.w.findMethod(recv.vtype(), x.Name)
	if fn == nil {
		if iv, ok := recv.(*Iface); ok {
			var args []Value
			for _, a := range x.Args[1:] {
				args = append(args, c.eval(a))
			}
			return e.specInvoke(c, iv, x.Name, args)
		}
		specFail("no method %s on %v", x.Name, recv.vtype())
	}
	args := []Value{c.adaptRecv(recv, fn.Params[0].Type())}
	for i, a := range x.Args[1:] {
		args = append(args, c.coerce(c.eval(a), fn.Params[i+1].Type()))
	}
	return e.specCallReal(c, fn, args)
}

func (c *SpecCtx) adaptRecv(recv Value, want types.Type) Value {
	if p, ok := recv.(*Ptr); ok {
		if _, wantPtr := want.Underlying().(*types.Pointer); !wantPtr {
			return c.e.load(c.st, p)
		}
	}
	return recv
}

// callPure expands a spec function.
func (c *SpecCtx) callPure(it *Item, argx []*SExpr) Value {
	e := c.e
	if len(argx) != len(it.Params) {
		specFail("%s: wrong number of arguments", it.Name)
	}
	pkg := e.w.typesPkg(it.Pkg)
	args := make([]Value, len(argx))
	ptypes := make([]types.Type, len(argx))
	for i, a := range argx {
		ptypes[i] = e.w.resolveType(pkg, it.Params[i].TypeStr)
		args[i] = c.coerce(c.eval(a), ptypes[i])
	}
	if it.Body == nil {
		// uninterpreted spec function over its arguments
		return e.uninterp(it, pkg, args)
	}
	if e.w.isRecursive(it) {
		return c.callRec(it, pkg, args, ptypes)
	}
	if e.opaque[it.Name] {
		// opaque in this VC: an uninterpreted function of the arguments (only sound for
		// functions that do not read the heap; checked)
		probe := &recDef{heapSort: map[string]string{}}
		e.symHeaps = append(e.symHeaps, &symHeapCollector{rd: probe})
		e.quantDepth++
		pv := map[string]Value{}
		for i, p := range it.Params {
			pv[p.Name] = args[i]
		}
		pc := &SpecCtx{e: e, st: &State{pc: tTrue, heap: map[string]string{}, next: "next!sym"}, vars: pv, pkg: pkg}
		pc.eval(it.Body)
		e.quantDepth--
		e.symHeaps = e.symHeaps[:len(e.symHeaps)-1]
		if len(probe.heapNames) > 0 {
			specFail("%s reads the heap and cannot be made opaque", it.Name)
		}
		return e.uninterp(it, pkg, args)
	}
	vars := map[string]Value{}
	for i, p := range it.Params {
		vars[p.Name] = args[i]
	}
	n := *c
	n.vars = vars
	n.pkg = pkg
	v := n.eval(it.Body)
	if it.Result != "" {
		v = n.coerce(v, e.w.resolveType(pkg, it.Result))
	}
	return v
}

func (e *Env) uninterp(it *Item, pkg *types.Package, args []Value) Value {
	rt := e.w.resolveType(pkg, it.Result)
	name := q("U!" + it.Pkg + "." + it.Name)
	var ts []string
	var sorts []string
	for _, a := range args {
		fl := e.flatten(a)
		ts = append(ts, fl...)
		for _, l := range e.leavesOf(a.vtype()) {
			sorts = append(sorts, l.Sort)
		}
	}
	rl := e.leavesOf(rt)
	if len(rl) != 1 {
		specFail("uninterpreted function %s must return a scalar", it.Name)
	}
	if !e.declared[name] {
		e.declared[name] = true
		e.sess.Cmd("(declare-fun " + name + " (" + strings.Join(sorts, " ") + ") " + rl[0].Sort + ")")
		// results respect their Go type's range
		if len(sorts) > 0 {
			var ds, as []string
			for i, srt := range sorts {
				ds = append(ds, fmt.Sprintf("(|$a%d| %s)", i, srt))
				as = append(as, fmt.Sprintf("|$a%d|", i))
			}
			app := sx(name, as...)
			if r := e.rangeFact(app, rl[0]); r != tTrue {
				e.sess.Cmd("(assert (forall (" + strings.Join(ds, " ") + ") (! " + r + " :pattern (" + app + "))))")
			}
		} else if r := e.rangeFact(name, rl[0]); r != tTrue {
			e.sess.Cmd("(assert " + r + ")")
		}
	}
	if len(ts) == 0 {
		return e.fromLeaves(rt, []string{name})
	}
	return e.fromLeaves(rt, []string{sx(name, ts...)})
}

// callRec applies a recursive spec function. The function is an uninterpreted SMT
// function (its parameters plus the heap arrays its body reads); its defining equation is
// instantiated ("unfolded once") at every ground application built outside a quantifier,
// and on request (`unfold f(args)`). Well-foundedness of the definition is a separate
// obligation (wellfounded:<name>), so the equations are consistent.
func (c *SpecCtx) callRec(it *Item, pkg *types.Package, args []Value, ptypes []types.Type) Value {
	e := c.e
	key := it.Pkg + "." + it.Name
	rd := e.recDefs[key]
	if rd == nil {
		rd = &recDef{item: it, name: q("R!" + key), heapSort: map[string]string{}, paramTypes: ptypes}
		rd.resType = e.w.resolveType(pkg, it.Result)
		rl := e.leavesOf(rd.resType)
		if len(rl) != 1 {
			specFail("recursive spec function %s must return a scalar", it.Name)
		}
		rd.resSort = rl[0].Sort
		e.recDefs[key] = rd
		e.defineRec(rd, pkg)
	}
	var ts []string
	for _, a := range args {
		ts = append(ts, e.flatten(a)...)
	}
	if rd.inProgress {
		// recursive occurrence inside its own body: heap params are placeholders
		if c.rec != nil && c.rec.collectCalls {
			c.rec.calls = append(c.rec.calls, recCall{guard: c.guardTerm(), args: append([]string(nil), ts...)})
		}
		ts = append(ts, "@HEAP:"+key+"@")
		return e.fromLeaves(rd.resType, []string{sx(rd.name, ts...)})
	}
	nargs := len(ts)
	for _, hn := range rd.heapNames {
		if ps, ok := rd.innerOf[hn]; ok {
			actual := ""
			for i, p := range rd.paramSyms {
				if p == ps {
					actual = ts[i]
				}
			}
			ts = append(ts, mkSelect(c.heapTermFor(hn, "(Array Int "+rd.heapSort[hn]+")"), actual))
			continue
		}
		ts = append(ts, c.heapTermFor(hn, rd.heapSort[hn]))
	}
	app := sx(rd.name, ts...)
	if e.quantDepth == 0 && !e.opaque[it.Name] {
		e.unfoldRec(rd, ts, nargs, app)
	}
	return e.fromLeaves(rd.resType, []string{app})
}

// unfoldRec assumes the defining equation of rd at the given actual arguments.
func (e *Env) unfoldRec(rd *recDef, actuals []string, nargs int, app string) {
	key := "unfold:" + app
	if e.declared[key] {
		return
	}
	if len(actuals) != nargs+len(rd.heapNames) || nargs != len(rd.paramSyms) {
		// the definition's heap parameter list changed since this application was built
		// (nested symbolic contexts): no defining equation is assumed for it (sound: fewer facts)
		return
	}
	e.declared[key] = true
	var pairs []string
	for i, p := range rd.paramSyms {
		pairs = append(pairs, p, actuals[i])
	}
	for i, hn := range rd.heapNames {
		pairs = append(pairs, q("h$"+hn), actuals[nargs+i])
	}
	body := strings.NewReplacer(pairs...).Replace(rd.body)
	e.sess.Cmd("(assert (= " + app + " " + body + "))")
}

func (c *SpecCtx) heapTermFor(name, srt string) string {
	return c.e.heapGet(c.st, name, srt)
}

type recCall struct {
	guard string
	args  []string
}

func (c *SpecCtx) guardTerm() string {
	if c.guard == "" {
		return tTrue
	}
	return c.guard
}

func (e *Env) defineRec(rd *recDef, pkg *types.Package) {
	it := rd.item
	rd.inProgress = true
	rd.collectCalls = true
	// symbolic state: heap arrays are parameters
	sym := &State{pc: tTrue, heap: map[string]string{}, next: "next!sym"}
	symHeap := &symHeapCollector{rd: rd}
	e.symHeaps = append(e.symHeaps, symHeap)
	vars := map[string]Value{}
	var sorts []string
	for i, p := range it.Params {
		ls := e.leavesOf(rd.paramTypes[i])
		ts := make([]string, len(ls))
		for j, l := range ls {
			ts[j] = q("$" + p.Name + sanitize(l.Path))
			rd.paramSyms = append(rd.paramSyms, ts[j])
			rd.paramSorts = append(rd.paramSorts, l.Sort)
			sorts = append(sorts, l.Sort)
		}
		vars[p.Name] = e.fromLeaves(rd.paramTypes[i], ts)
	}
	e.quantDepth++
	ctx := &SpecCtx{e: e, st: sym, vars: vars, pkg: pkg, rec: rd}
	bodyV := ctx.coerce(ctx.eval(it.Body), rd.resType)
	body := e.flatten(bodyV)[0]
	if it.Decr != nil {
		rd.decrTerm = ctx.intTerm(ctx.eval(it.Decr))
	}
	e.quantDepth--
	e.symHeaps = e.symHeaps[:len(e.symHeaps)-1]
	sort.Strings(rd.heapNames)
	// inner-array abstraction: if the body reads an element heap array only at one backing
	// array that is a parameter (E[$s#arr]), the function takes that inner array instead of
	// the whole heap array; writes to other backing arrays then leave its value unchanged
	// by congruence, without frame lemmas.
	rd.innerOf = map[string]string{}
	for _, hn := range rd.heapNames {
		if !strings.HasPrefix(hn, "E!") {
			continue
		}
		sym := q("h$" + hn)
		total := strings.Count(body, sym)
		for _, ps := range rd.paramSyms {
			pat := "(select " + sym + " " + ps + ")"
			if c := strings.Count(body, pat); c > 0 && c == total {
				rd.innerOf[hn] = ps
				body = strings.ReplaceAll(body, pat, sym)
				srt := rd.heapSort[hn]
				// (Array Int (Array Int X)) -> (Array Int X)
				rd.heapSort[hn] = strings.TrimSuffix(strings.TrimPrefix(srt, "(Array Int "), ")")
			}
		}
	}
	var hp []string
	for _, hn := range rd.heapNames {
		sorts = append(sorts, rd.heapSort[hn])
		hp = append(hp, q("h$"+hn))
	}
	key := it.Pkg + "." + it.Name
	body = strings.ReplaceAll(body, "@HEAP:"+key+"@", strings.Join(hp, " "))
	if len(hp) == 0 {
		body = strings.ReplaceAll(body, " )", ")")
	}
	rd.body = body
	rd.inProgress = false
	rd.collectCalls = false
	rd.defined = true
	e.sess.Cmd("(declare-fun " + rd.name + " (" + strings.Join(sorts, " ") + ") " + rd.resSort + ")")
}

type symHeapCollector struct{ rd *recDef }

// packedElemTerm: for a trigger s[i] over a slice whose elements are packed tuples, the
// tuple term itself (so the trigger fires on any field access of that element).
func (c *SpecCtx) packedElemTerm(x *SExpr) (string, bool) {
	for x.Op == "paren" {
		x = x.Args[0]
	}
	if x.Op != "index" {
		return "", false
	}
	b, ok := c.eval(x.Args[0]).(*Slice)
	if !ok {
		return "", false
	}
	et := b.Typ.Underlying().(*types.Slice).Elem()
	if _, _, _, ok := c.e.packed(et); !ok {
		return "", false
	}
	p := &Ptr{Kind: "elem", Ref: b.Arr, Idx: ixTerm(b.Off, c.intTerm(c.eval(x.Args[1]))), Root: et}
	name, srt := c.e.locName(p, Leaf{})
	arr := c.e.heapGet(c.st, name, srt)
	return mkSelect(mkSelect(arr, p.Ref), p.Idx), true
}
