package main

// Iterator interface contracts: an interface method whose contract carries
//
//	opt iterates <param> :: <membership predicate over `it`>
//
// calls the function value passed as <param> zero or more times, each time with an element
// `it` satisfying the predicate, and does nothing else. When the argument is a closure of the
// function under verification, the call is treated like a loop whose body is the closure: the
// caller's contract supplies `loop iter<k> invariant` clauses (k-th such call in the
// function), the state the closure may write is found by dry runs and havocked, the invariants
// are checked before the first call (inv-init) and after one arbitrary call (inv-step), and
// execution continues from an arbitrary number of calls (invariants assumed).
//
//	opt iterates-complete true
//
// adds a ghost visited set (readable as visited(iter<k>, x)): every call gets a member that
// was not visited before, and when the iteration ends without being stopped every member has
// been visited.
//
//	opt iterates-stops true
//
// (callback returns bool) ends the iteration after the first call that returns false: the
// state after the iteration is either the state after such a call, or a state after only
// true-returning calls in which every member has been visited.

import (
	"fmt"
	"go/types"
	"strings"
)

func (e *Env) iterateClosure(fr *Frame, it *Item, recv *Iface, args []Value, vars map[string]Value, pkg *types.Package, st *State) bool {
	spec := it.Opts["iterates"]
	if spec == "" {
		return false
	}
	parts := strings.SplitN(spec, "::", 2)
	if len(parts) != 2 {
		specFail("opt iterates needs <param> :: <predicate>")
	}
	pname := strings.TrimSpace(parts[0])
	fv, ok := vars[pname].(*FuncV)
	if !ok || fv.Fn == nil {
		return false
	}
	pred, err := parseSpecExpr(strings.TrimSpace(parts[1]))
	if err != nil {
		specFail("opt iterates: %v", err)
	}
	top := fr
	for top.parent != nil {
		top = top.parent
	}
	ord := 0
	if e.dry == 0 {
		ord = e.nextOrdinalIfReal("iter")
		e.iterOrd = ord
	} else {
		ord = e.iterOrd
	}
	key := fmt.Sprintf("iter%d", ord)
	invs := e.loopInvariants(fr, key)
	elemT := fv.Fn.Signature.Params().At(0).Type()
	complete := it.Opts["iterates-complete"] == "true"
	stops := it.Opts["iterates-stops"] == "true"
	visName, visSort := "", "(Array "+e.scalarSort(elemT)+" Bool)"
	if complete {
		visName = fmt.Sprintf("V!%s!%s", sanitize(top.fn.Name()), key)
		e.heapSorts[visName] = visSort
		e.cellArray[visName] = true
		e.declared[visName] = true
		st.heap[visName] = constArray(visSort, tFalse)
	}
	evalInvs := func(s *State) []string {
		var out []string
		for _, c := range invs {
			out = append(out, e.evalInv(fr, c, s))
		}
		return out
	}
	// one call of the closure with an arbitrary member, from state s
	callOnce := func(s *State) Value {
		el := e.freshValue(elemT, "it")
		v2 := map[string]Value{}
		for k, v := range vars {
			v2[k] = v
		}
		v2["it"] = el
		ctx := &SpecCtx{e: e, st: s, vars: v2, pkg: pkg}
		e.assume(mkImp(s.pc, ctx.boolTerm(pred)))
		var vis, k string
		if complete {
			vis = s.heap[visName]
			if vis == "" {
				vis = constArray(visSort, tFalse)
			}
			k = e.flatten(el)[0]
			e.assume(mkImp(s.pc, mkNot(mkSelect(vis, k))))
		}
		r := e.callStatic(fr, fv.Fn, fv.Bind, []Value{el}, fv.Fn.Signature.Results(), s)
		if complete {
			s.heap[visName] = e.maybeNameForce(mkStore(vis, k, tTrue), visSort, "vis")
			e.noteWrite(visName, k)
		}
		return r
	}
	if e.dry == 0 {
		for i, c := range invs {
			e.oblige("inv-init", "loop"+key+lbl(c.Label), st.pc, evalInvs(st)[i])
		}
	}
	counterAtEntry := e.counter
	snap := e.snapshot()
	discover := func(start *State) (map[string]bool, map[string][]string) {
		s := start.clone()
		e.dry++
		saveW, saveA := e.writeLog, e.allocLog
		e.writeLog, e.allocLog = map[string][]string{}, map[string]bool{}
		callOnce(s)
		wlog := e.writeLog
		e.writeLog, e.allocLog = saveW, saveA
		if saveW != nil {
			for n, rs := range wlog {
				saveW[n] = append(saveW[n], rs...)
			}
		}
		e.dry--
		mod := map[string]bool{}
		if s.base != start.base {
			for n := range e.heapSorts {
				if _, kept := s.heap[n]; !kept {
					mod[n] = true
				}
			}
		}
		for n, t := range s.heap {
			if e.heapGet(start, n, e.heapSorts[n]) != t {
				mod[n] = true
			}
		}
		return mod, wlog
	}
	modified, wlog := discover(st)
	for round := 0; round < 3; round++ {
		tent := st.clone()
		for _, n := range sortedKeys(modified) {
			tent.heap[n] = e.fresh("tv!"+n, e.heapSorts[n])
		}
		tent.next = e.fresh("tnext", sInt)
		e.assume(sx("<=", st.next, tent.next))
		for _, t := range evalInvs(tent) {
			e.assume(mkImp(tent.pc, t))
		}
		m2, w2 := discover(tent)
		before := len(modified)
		for n := range m2 {
			modified[n] = true
		}
		wlog = w2
		if len(modified) == before {
			break
		}
	}
	// havoc (partial where the closure only writes a few call-invariant references)
	e.rollback(snap)
	hv := st.clone()
	partialRefs := map[string][]string{}
	for _, n := range sortedKeys(modified) {
		old := e.heapGet(st, n, e.heapSorts[n])
		refs := dedupe(wlog[n])
		partial := len(wlog["*callee-modifies*"]) == 0 && len(refs) > 0 && len(refs) <= 4
		for _, r := range refs {
			for _, m := range symNumRe.FindAllStringSubmatch(r, -1) {
				if atoi(m[1]) > counterAtEntry {
					partial = false
				}
			}
		}
		if partial {
			t := old
			inner := strings.TrimSuffix(strings.TrimPrefix(e.heapSorts[n], "(Array Int "), ")")
			for _, r := range refs {
				t = mkStore(t, r, e.fresh("hv@"+n, inner))
			}
			hv.heap[n] = e.maybeNameForce(t, e.heapSorts[n], "hvp")
			partialRefs[n] = refs
			continue
		}
		hv.heap[n] = e.fresh("hv!"+n, e.heapSorts[n])
	}
	nx := e.fresh("next", sInt)
	e.assume(sx("<=", st.next, nx))
	hv.next = nx
	for _, t := range evalInvs(hv) {
		e.assume(mkImp(hv.pc, t))
	}
	if e.dry == 0 {
		e.loopNotes = append(e.loopNotes, fmt.Sprintf("iterator call %s (%s) in %s: %d invariant clause(s); havocs %s", key, it.Name, fr.fn.Name(), len(invs), strings.Join(sortedKeys(modified), ", ")))
	}
	// one arbitrary call, checked
	// (guarded by a fresh boolean, so that what is assumed about the element passed — a
	// member exists — does not leak into the state after the iteration)
	body := hv.clone()
	called := e.fresh("itercalled", sBool)
	body.pc = e.maybeName(mkAnd(hv.pc, called), sBool)
	res := callOnce(body)
	cont := tTrue // the iteration continues after this call
	if stops {
		rs, ok := res.(*Sc)
		if !ok || rs.Sort != sBool {
			specFail("opt iterates-stops: the callback does not return a bool")
		}
		cont = rs.T
	}
	if e.dry == 0 {
		for i, c := range invs {
			e.oblige("inv-step", "loop"+key+lbl(c.Label), mkAnd(body.pc, cont), evalInvs(body)[i])
		}
		pk := map[string]bool{}
		for n := range partialRefs {
			pk[n] = true
		}
		for _, n := range sortedKeys(pk) {
			var excl []string
			for _, r := range partialRefs[n] {
				excl = append(excl, mkNot(mkEq("|$r|", r)))
			}
			after := e.heapGet(body, n, e.heapSorts[n])
			before := e.heapGet(hv, n, e.heapSorts[n])
			if after != before {
				e.oblige("inv-step", "loop"+key+":auto-writes:"+n, body.pc,
					fmt.Sprintf("(forall ((|$r| Int)) (=> %s (= (select %s |$r|) (select %s |$r|))))", mkAnd(excl...), after, before))
			}
		}
		for n := range body.heap {
			if !modified[n] && e.heapGet(body, n, e.heapSorts[n]) != e.heapGet(hv, n, e.heapSorts[n]) {
				e.oblige("inv-step", "loop"+key+":auto-modifies:"+n, body.pc, tFalse)
			}
		}
	}
	// continue from an arbitrary number of calls
	exit := hv
	if complete {
		// not stopped: every member has been visited
		x := "|$x|"
		v2 := map[string]Value{}
		for k, v := range vars {
			v2[k] = v
		}
		v2["it"] = &Sc{T: x, Sort: e.scalarSort(elemT), Typ: elemT}
		e.quantDepth++
		p := (&SpecCtx{e: e, st: hv, vars: v2, pkg: pkg}).boolTerm(pred)
		e.quantDepth--
		vis := hv.heap[visName]
		pats := ""
		for _, pt := range patternTerms(p) {
			if strings.Contains(pt, x) {
				pats += " :pattern (" + pt + ")"
			}
		}
		pats += " :pattern (" + mkSelect(vis, x) + ")"
		all := fmt.Sprintf("(forall ((%s %s)) (! (=> %s %s)%s))", x, e.scalarSort(elemT), p, mkSelect(vis, x), pats)
		if stops {
			a := hv.clone()
			a.pc = e.maybeName(mkAnd(hv.pc, mkNot(called)), sBool)
			b := body.clone()
			b.pc = e.maybeName(mkAnd(body.pc, mkNot(cont)), sBool)
			e.assume(mkImp(a.pc, all))
			exit = e.mergeStates([]*State{a, b})
		} else {
			e.assume(mkImp(hv.pc, all))
		}
		e.trust("iterator " + it.Name + ": each member at most once; complete unless stopped")
	} else if stops {
		specFail("opt iterates-stops needs iterates-complete")
	}
	*st = *exit
	return true
}
