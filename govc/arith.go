package main

import (
	"fmt"
	"go/constant"
	"go/token"
	"go/types"
	"math/big"
	"strings"
)

func basicOf(t types.Type) *types.Basic {
	b, _ := t.Underlying().(*types.Basic)
	return b
}

func isInteger(t types.Type) bool {
	b := basicOf(t)
	return b != nil && b.Info()&types.IsInteger != 0
}

func isUnsigned(t types.Type) bool {
	b := basicOf(t)
	return b != nil && b.Info()&types.IsUnsigned != 0
}

func isString(t types.Type) bool {
	b := basicOf(t)
	return b != nil && b.Info()&types.IsString != 0
}

func isFloat(t types.Type) bool {
	b := basicOf(t)
	return b != nil && b.Info()&types.IsFloat != 0
}

func bitWidth(t types.Type) int {
	switch basicOf(t).Kind() {
	case types.Int8, types.Uint8:
		return 8
	case types.Int16, types.Uint16:
		return 16
	case types.Int32, types.Uint32:
		return 32
	}
	return 64
}

func pow2str(w int) string {
	return new(big.Int).Lsh(big.NewInt(1), uint(w)).String()
}

// wrapTerm reduces a mathematical integer to the range of Go integer type t
// (two's-complement wrap-around), exactly.
func wrapTerm(x string, t types.Type) string {
	b := basicOf(t)
	if b == nil || b.Info()&types.IsInteger == 0 {
		return x
	}
	lo, hi, ok := intBounds(b)
	if !ok {
		return x
	}
	w := bitWidth(t)
	m := pow2str(w)
	var wrapped string
	if isUnsigned(t) {
		wrapped = sx("mod", x, m)
	} else {
		h := pow2str(w - 1)
		wrapped = sx("-", sx("mod", sx("+", x, h), m), h)
	}
	return mkIte(mkAnd(sx("<=", lo, x), sx("<=", x, hi)), x, wrapped)
}

func isNumeral(s string) bool {
	if s == "" {
		return false
	}
	for _, c := range s {
		if c < '0' || c > '9' {
			return false
		}
	}
	return true
}

// constTerm converts a Go constant to a leaf term of type t.
func (e *Env) constTerm(v constant.Value, t types.Type) string {
	if v == nil {
		return "0"
	}
	b := basicOf(t)
	switch v.Kind() {
	case constant.Bool:
		if constant.BoolVal(v) {
			return tTrue
		}
		return tFalse
	case constant.String:
		return e.strID(constant.StringVal(v))
	case constant.Int:
		if b != nil && b.Info()&types.IsFloat != 0 {
			return e.floatAtom(v.ExactString())
		}
		if e.scalarSort(t) == sBV8 {
			n, _ := constant.Int64Val(v)
			return fmt.Sprintf("#x%02x", n&255)
		}
		return mkBig(v.ExactString())
	case constant.Float:
		if b != nil && b.Info()&types.IsInteger != 0 {
			if i := constant.ToInt(v); i.Kind() == constant.Int {
				return mkBig(i.ExactString())
			}
		}
		return e.floatAtom(v.ExactString())
	}
	unsupp("constant %v of kind %v", v, v.Kind())
	return ""
}

// floats outside mode bv64fp are atoms: each distinct literal gets an id
func (e *Env) floatAtom(lit string) string {
	return e.strID("float:" + lit)
}

// intBinop computes a Go integer binary operation with exact wrap-around.
// It may emit a panic obligation (division by zero) through the callback.
func (e *Env) intBinop(op token.Token, a, b string, t types.Type, st *State, divCheck func(nz string)) string {
	switch op {
	case token.ADD:
		return wrapTerm(sx("+", a, b), t)
	case token.SUB:
		return wrapTerm(sx("-", a, b), t)
	case token.MUL:
		return wrapTerm(sx("*", a, b), t)
	case token.QUO, token.REM:
		if divCheck != nil {
			divCheck(mkNot(mkEq(b, "0")))
		}
		var qt, rt string
		if isNumeral(b) && b != "0" {
			if isUnsigned(t) {
				qt, rt = sx("div", a, b), sx("mod", a, b)
			} else {
				qt = truncDiv(a, b)
				rt = sx("-", a, sx("*", b, qt))
			}
		} else {
			// uninterpreted truncated division/remainder, axiomatised (DESIGN 2.3)
			qt, rt = e.tdivmod(a, b)
		}
		if op == token.QUO {
			// MinInt / -1 wraps
			return wrapTerm(qt, t)
		}
		return rt
	case token.SHL:
		if isNumeral(b) {
			var n int
			fmt.Sscan(b, &n)
			if n >= 64 {
				return "0"
			}
			return wrapTerm(sx("*", a, pow2str(n)), t)
		}
		// variable shift: table over 0..63
		tbl := "0"
		for k := 63; k >= 0; k-- {
			tbl = mkIte(mkEq(b, fmt.Sprint(k)), sx("*", a, pow2str(k)), tbl)
		}
		return wrapTerm(tbl, t)
	case token.SHR:
		if isNumeral(b) {
			var n int
			fmt.Sscan(b, &n)
			if n >= 64 {
				return mkIte(sx(">=", a, "0"), "0", "(- 1)")
			}
			return sx("div", a, pow2str(n)) // floor division = arithmetic shift
		}
		tbl := mkIte(sx(">=", a, "0"), "0", "(- 1)")
		for k := 63; k >= 0; k-- {
			tbl = mkIte(mkEq(b, fmt.Sprint(k)), sx("div", a, pow2str(k)), tbl)
		}
		return tbl
	case token.AND, token.OR, token.XOR, token.AND_NOT:
		// bit operations on mathematical ints: only constant folding
		if isNumeral(a) && isNumeral(b) {
			x, _ := new(big.Int).SetString(a, 10)
			y, _ := new(big.Int).SetString(b, 10)
			z := new(big.Int)
			switch op {
			case token.AND:
				z.And(x, y)
			case token.OR:
				z.Or(x, y)
			case token.XOR:
				z.Xor(x, y)
			case token.AND_NOT:
				z.AndNot(x, y)
			}
			return z.String()
		}
		// x & (2^k - 1) on non-negative x is mod 2^k
		if op == token.AND && isNumeral(b) {
			y, _ := new(big.Int).SetString(b, 10)
			y1 := new(big.Int).Add(y, big.NewInt(1))
			if y1.BitLen() > 0 && new(big.Int).And(y1, y).Sign() == 0 && isUnsigned(t) {
				return sx("mod", a, y1.String())
			}
		}
		f := e.uninterpBinop("bit"+op.String(), t)
		return sx(f, a, b)
	}
	unsupp("integer operator %v", op)
	return ""
}

func (e *Env) uninterpBinop(name string, t types.Type) string {
	n := q("op!" + sanitize(name) + "!" + typeKey(t))
	if !e.declared[n] {
		e.declared[n] = true
		e.sess.Cmd("(declare-fun " + n + " (Int Int) Int)")
	}
	e.trust("bit operation " + name + " on " + t.String() + " treated as uninterpreted")
	return n
}

func intCompare(op token.Token, a, b string) string {
	switch op {
	case token.EQL:
		return mkEq(a, b)
	case token.NEQ:
		return mkNot(mkEq(a, b))
	case token.LSS:
		return sx("<", a, b)
	case token.LEQ:
		return sx("<=", a, b)
	case token.GTR:
		return sx(">", a, b)
	case token.GEQ:
		return sx(">=", a, b)
	}
	return ""
}

// bv8Binop handles byte operations in mode bytebv.
func bv8Binop(op token.Token, a, b string) (string, bool) {
	switch op {
	case token.AND:
		return sx("bvand", a, b), true
	case token.OR:
		return sx("bvor", a, b), true
	case token.XOR:
		return sx("bvxor", a, b), true
	case token.AND_NOT:
		return sx("bvand", a, sx("bvnot", b)), true
	case token.ADD:
		return sx("bvadd", a, b), true
	case token.SUB:
		return sx("bvsub", a, b), true
	}
	return "", false
}

func bv8Compare(op token.Token, a, b string) string {
	switch op {
	case token.EQL:
		return mkEq(a, b)
	case token.NEQ:
		return mkNot(mkEq(a, b))
	case token.LSS:
		return sx("bvult", a, b)
	case token.LEQ:
		return sx("bvule", a, b)
	case token.GTR:
		return sx("bvugt", a, b)
	case token.GEQ:
		return sx("bvuge", a, b)
	}
	return ""
}

// bv8Shl: byte << intShift as an ite table (no int2bv bridge)
func bv8Shl(a, shift string) string {
	if isNumeral(shift) {
		return sx("bvshl", a, fmt.Sprintf("#x%02s", strings.TrimSpace(fmt.Sprintf("%x", atoi(shift)&255))))
	}
	tbl := "#x00"
	for k := 7; k >= 0; k-- {
		tbl = mkIte(mkEq(shift, fmt.Sprint(k)), sx("bvshl", a, fmt.Sprintf("#x%02x", k)), tbl)
	}
	return tbl
}

func atoi(s string) int {
	var n int
	fmt.Sscan(s, &n)
	return n
}

// tdivmod returns Go's truncated quotient and remainder for a non-constant divisor as
// applications of uninterpreted functions; the defining axiom (exact for all sign
// combinations) is instantiated for these operands, or asserted once in quantified form
// when the operands are under a quantifier.
func (e *Env) tdivmod(a, b string) (string, string) {
	if !e.declared["tdiv"] {
		e.declared["tdiv"] = true
		e.sess.Cmd("(declare-fun tdiv (Int Int) Int)")
		e.sess.Cmd("(declare-fun tmod (Int Int) Int)")
	}
	qt, rt := sx("tdiv", a, b), sx("tmod", a, b)
	ax := func(a, b, qt, rt string) string {
		return "(=> (not (= " + b + " 0)) (and (= " + a + " (+ (* " + b + " " + qt + ") " + rt + ")) (< (ite (>= " + rt + " 0) " + rt + " (- " + rt + ")) (ite (>= " + b + " 0) " + b + " (- " + b + "))) (=> (>= " + a + " 0) (>= " + rt + " 0)) (=> (<= " + a + " 0) (<= " + rt + " 0))))"
	}
	if e.quantDepth > 0 {
		if !e.declared["tdiv-axiom"] {
			e.declared["tdiv-axiom"] = true
			e.sess.Cmd("(assert (forall ((a Int) (b Int)) (! " + ax("a", "b", "(tdiv a b)", "(tmod a b)") + " :pattern ((tdiv a b)) :pattern ((tmod a b)))))")
		}
		return qt, rt
	}
	key := "tdivinst:" + a + "|" + b
	if !e.declared[key] {
		e.declared[key] = true
		e.sess.Cmd("(assert " + ax(a, b, qt, rt) + ")")
	}
	return qt, rt
}
