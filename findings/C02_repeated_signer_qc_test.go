package cert_test

import (
	"testing"

	"github.com/relab/hotstuff"
	"github.com/relab/hotstuff/internal/testutil"
	"github.com/relab/hotstuff/security/crypto"
)

// Witness for the defect fixed by "fix: ECDSA/EdDSA verification rejects repeated signers":
// a QC whose signer list is one replica's signature repeated three times verified for n = 4
// (Multi.Len counts entries, not distinct replicas).
func TestGovcFindingRepeatedSignerQC(t *testing.T) {
	set := testutil.NewEssentialsSet(t, 4, crypto.NameECDSA)
	signers := set.Signers()
	block := testutil.CreateBlock(t, signers[0])
	for _, e := range set {
		e.Blockchain().Store(block)
	}
	pc := testutil.CreatePC(t, block, signers[0])
	one := pc.Signature().(crypto.Multi[*crypto.ECDSASignature])[0]
	qc := hotstuff.NewQuorumCert(crypto.NewMulti(one, one, one), block.View(), block.Hash())
	if err := signers[1].VerifyQuorumCert(qc); err == nil {
		t.Fatalf("a QC carrying one replica's signature three times verified as a quorum of 3")
	}
}
