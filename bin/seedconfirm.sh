#!/bin/bash
# usage: seedconfirm.sh <seed-dir-name>   e.g. C14-1
# Confirms a seeded change in a scratch worktree of /repo's *pinned* commit (df6eed6) plus fix commits:
#   suite passes with the change; demo fails with it; demo passes without it. Writes result.json.
set -u
S=/verif/seeded/$1
BASE=${2:-df6eed6}
WT=/tmp/seedconfirm/$1
export GOFLAGS=-mod=mod GOPROXY=off
rm -rf $WT; mkdir -p /tmp/seedconfirm
git -C /repo worktree add -q --detach $WT $BASE || exit 2
cd $WT
dest=$(head -1 $S/demo_test.go | sed -n 's|^// dest: *||p')
runre=$(sed -n '2p' $S/demo_test.go | grep -o "\-run [^ ]*" | head -1 | sed "s/-run //; s/'//g")
pkg=./$(dirname $dest)
res() { echo "{\"seed\":\"$1\",\"base\":\"$BASE\",\"applies\":$2,\"suite_with_change\":\"$3\",\"demo_with_change\":\"$4\",\"demo_without_change\":\"$5\"}" > $S/result.json; cat $S/result.json; }
if ! git apply $S/patch.diff; then res $1 false na na na; cd /; git -C /repo worktree remove --force $WT; exit 1; fi
go build ./... || { res $1 true build-fail na na; cd /; git -C /repo worktree remove --force $WT; exit 1; }
go test -vet=off -count=1 -timeout 25m ./... > $S/suite.log 2>&1 && suite=pass || suite=fail
cp $S/demo_test.go $dest
go test -vet=off -count=1 -timeout 10m -run "${runre:-.}" $pkg > $S/demo_with.log 2>&1 && dw=pass || dw=fail
git checkout -q -- . 
go test -vet=off -count=1 -timeout 10m -run "${runre:-.}" $pkg > $S/demo_without.log 2>&1 && dwo=pass || dwo=fail
res $1 true $suite $dw $dwo
cd /; git -C /repo worktree remove --force $WT
