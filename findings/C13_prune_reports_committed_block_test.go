package consensus_test

// dest: protocol/consensus/zz_govc_c13_prune_test.go
//
// Witness for the finding on Blockchain.PruneToHeight (C13, "the blocks reported as abandoned
// are never on the committed chain"): with two blocks in one view (equivocation), the height
// index holds the block stored last, and the committed chain is reconstructed from the index
// instead of from the committed block. Block X (view 1) is on the committed chain G <- X <- A,
// yet it is reported as forked and its commands are aborted after they were executed.

import (
	"testing"

	"github.com/relab/hotstuff"
	"github.com/relab/hotstuff/core/eventloop"
	"github.com/relab/hotstuff/internal/proto/clientpb"
	"github.com/relab/hotstuff/internal/testutil"
	"github.com/relab/hotstuff/protocol"
	"github.com/relab/hotstuff/security/crypto"
)

type fixedCommitRule struct{ commit *hotstuff.Block }

func (r fixedCommitRule) CommitRule(*hotstuff.Block) *hotstuff.Block { return r.commit }
func (r fixedCommitRule) ChainLength() int                          { return 1 }

func TestGovcFindingPruneReportsCommittedBlock(t *testing.T) {
	essentials := testutil.WireUpEssentials(t, 1, crypto.NameECDSA)
	viewStates, err := protocol.NewViewStates(essentials.Blockchain(), essentials.Authority())
	if err != nil {
		t.Fatal(err)
	}
	g := hotstuff.GetGenesis()
	gqc := hotstuff.NewQuorumCert(nil, 0, g.Hash())
	batch := func(c uint32) *clientpb.Batch {
		return &clientpb.Batch{Commands: []*clientpb.Command{{ClientID: c, SequenceNumber: 1}}}
	}
	x := hotstuff.NewBlock(g.Hash(), gqc, batch(1), 1, 1)                                // G <- X(1)
	y := hotstuff.NewBlock(g.Hash(), gqc, batch(2), 2, 1)                                // G <- Y(2)
	a := hotstuff.NewBlock(x.Hash(), hotstuff.NewQuorumCert(nil, 1, x.Hash()), batch(3), 3, 1) // X <- A(3)
	b := hotstuff.NewBlock(y.Hash(), hotstuff.NewQuorumCert(nil, 2, y.Hash()), batch(4), 3, 1) // Y <- B(3), same view as A
	chain := essentials.Blockchain()
	for _, blk := range []*hotstuff.Block{x, y, a, b} { // B is stored after A
		chain.Store(blk)
	}
	var executed, aborted []*clientpb.Batch
	el := essentials.EventLoop()
	eventloop.Register(el, func(e clientpb.ExecuteEvent) { executed = append(executed, e.Batch) })
	eventloop.Register(el, func(e clientpb.AbortEvent) { aborted = append(aborted, e.Batch) })
	committer := wireUpCommitter(t, essentials, viewStates, fixedCommitRule{commit: a})
	if err := committer.TryCommit(a); err != nil {
		t.Fatal(err)
	}
	for el.Tick(t.Context()) {
	}
	if viewStates.CommittedBlock() != a {
		t.Fatalf("setup: A was not committed")
	}
	for _, ab := range aborted {
		for _, ex := range executed {
			if ab == ex {
				t.Errorf("batch of client %d was executed (its block is on the committed chain) and then aborted as forked", ab.Commands[0].ClientID)
			}
		}
	}
}
