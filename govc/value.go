package main

// Symbolic values. Every Go value is decomposed into leaves of SMT sort Int, Bool or
// (_ BitVec 8) (bytes in mode bytebv). See DESIGN.md 2.3.

import (
	"fmt"
	"go/types"
	"strings"

	"golang.org/x/tools/go/ssa"
)

type Value interface{ vtype() types.Type }

// Sc is a scalar leaf.
type Sc struct {
	T    string
	Sort string // "Int", "Bool", "(_ BitVec 8)"
	Typ  types.Type
}

// Ptr is a pointer. Kind obj: Ref is an object reference, Root the allocated type and
// Path the field path inside it. Kind elem: Ref is a backing-array reference, Idx the
// absolute element index, Root the element type. Kind arr: pointer to a Go array
// object ([n]T allocated by new/local); Ref is the backing array.
type Ptr struct {
	Kind string // "obj", "elem", "arr"
	Ref  string
	Idx  string
	Root types.Type
	Path []int
	Typ  types.Type // the pointer type
}

type Struct struct {
	Typ types.Type // named or struct type
	F   []Value
}

type Slice struct {
	Arr, Off, Len, Cap string
	Typ                types.Type
}

type MapV struct {
	Ref string
	Typ types.Type
}

type Iface struct {
	T   string
	Typ types.Type
}

// FuncV is a statically known function value (closure).
type FuncV struct {
	Fn   *ssa.Function
	Bind []Value
	Typ  types.Type
	Abs  string // abstract function value (Int) when Fn == nil
}

type Tuple struct {
	V   []Value
	Typ types.Type
}

func (v *Sc) vtype() types.Type     { return v.Typ }
func (v *Ptr) vtype() types.Type    { return v.Typ }
func (v *Struct) vtype() types.Type { return v.Typ }
func (v *Slice) vtype() types.Type  { return v.Typ }
func (v *MapV) vtype() types.Type   { return v.Typ }
func (v *Iface) vtype() types.Type  { return v.Typ }
func (v *FuncV) vtype() types.Type  { return v.Typ }
func (v *Tuple) vtype() types.Type  { return v.Typ }

const (
	sInt  = "Int"
	sBool = "Bool"
	sBV8  = "(_ BitVec 8)"
)

type unsupported struct{ msg string }

func (u unsupported) Error() string { return "unsupported: " + u.msg }

func unsupp(format string, a ...any) {
	panic(unsupported{fmt.Sprintf(format, a...)})
}

// typeKey gives a stable, SMT-symbol-safe name for a Go type.
func typeKey(t types.Type) string {
	s := types.TypeString(t, func(p *types.Package) string { return p.Path() })
	s = strings.NewReplacer("|", "!", "\\", "!", " ", "_", "github.com/relab/hotstuff", "hs").Replace(s)
	if len(s) > 120 {
		s = s[:100] + fmt.Sprintf("~%x", hashString(s))
	}
	return s
}

func hashString(s string) uint32 {
	var h uint32 = 2166136261
	for i := 0; i < len(s); i++ {
		h ^= uint32(s[i])
		h *= 16777619
	}
	return h
}

type Leaf struct {
	Path string
	Sort string
	Typ  types.Type
	Zero string // zero value term for packed element leaves
}

func isByte(t types.Type) bool {
	b, ok := t.Underlying().(*types.Basic)
	return ok && b.Kind() == types.Uint8
}

func (e *Env) scalarSort(t types.Type) string {
	switch u := t.Underlying().(type) {
	case *types.Basic:
		if u.Info()&types.IsBoolean != 0 {
			return sBool
		}
		if e.byteBV && u.Kind() == types.Uint8 {
			return sBV8
		}
		if e.bvfp && u.Info()&types.IsInteger != 0 {
			return e.bvSort(t)
		}
		if e.bvfp && u.Info()&types.IsFloat != 0 {
			return e.bvSort(t)
		}
	}
	return sInt
}

// leavesOf lists the leaves of a value of type t, in a fixed order.
func (e *Env) leavesOf(t types.Type) []Leaf {
	switch u := t.Underlying().(type) {
	case *types.Struct:
		var out []Leaf
		for i := 0; i < u.NumFields(); i++ {
			for _, l := range e.leavesOf(u.Field(i).Type()) {
				out = append(out, Leaf{Path: "." + u.Field(i).Name() + l.Path, Sort: l.Sort, Typ: l.Typ})
			}
		}
		return out
	case *types.Slice:
		it := types.Typ[types.Int]
		return []Leaf{{Path: "#arr", Sort: sInt, Typ: it}, {Path: "#off", Sort: sInt, Typ: it}, {Path: "#len", Sort: sInt, Typ: it}, {Path: "#cap", Sort: sInt, Typ: it}}
	case *types.Tuple:
		var out []Leaf
		for i := 0; i < u.Len(); i++ {
			for _, l := range e.leavesOf(u.At(i).Type()) {
				out = append(out, Leaf{Path: fmt.Sprintf("#%d%s", i, l.Path), Sort: l.Sort, Typ: l.Typ})
			}
		}
		return out
	default:
		return []Leaf{{Path: "", Sort: e.scalarSort(t), Typ: t}}
	}
}

func (e *Env) flatten(v Value) []string {
	switch x := v.(type) {
	case *Sc:
		return []string{x.T}
	case *Ptr:
		if x.Kind == "obj" && len(x.Path) == 0 {
			return []string{x.Ref}
		}
		if x.Kind == "arr" {
			return []string{x.Ref}
		}
		unsupp("interior pointer (%s %v) escapes to heap/merge", x.Kind, x.Typ)
	case *Struct:
		var out []string
		for _, f := range x.F {
			out = append(out, e.flatten(f)...)
		}
		return out
	case *Slice:
		return []string{x.Arr, x.Off, x.Len, x.Cap}
	case *MapV:
		return []string{x.Ref}
	case *Iface:
		return []string{x.T}
	case *FuncV:
		if x.Fn == nil {
			return []string{x.Abs}
		}
		// a statically known function stored somewhere: represent by a constant id
		return []string{e.funcID(x)}
	case *Tuple:
		var out []string
		for _, f := range x.V {
			out = append(out, e.flatten(f)...)
		}
		return out
	}
	unsupp("flatten %T", v)
	return nil
}

// unflatten rebuilds a value of type t from leaf terms (consumes from *terms).
func (e *Env) unflatten(t types.Type, terms *[]string) Value {
	take := func() string {
		x := (*terms)[0]
		*terms = (*terms)[1:]
		return x
	}
	switch u := t.Underlying().(type) {
	case *types.Struct:
		s := &Struct{Typ: t}
		for i := 0; i < u.NumFields(); i++ {
			s.F = append(s.F, e.unflatten(u.Field(i).Type(), terms))
		}
		return s
	case *types.Slice:
		return &Slice{Arr: take(), Off: take(), Len: take(), Cap: take(), Typ: t}
	case *types.Tuple:
		tp := &Tuple{Typ: t}
		for i := 0; i < u.Len(); i++ {
			tp.V = append(tp.V, e.unflatten(u.At(i).Type(), terms))
		}
		return tp
	case *types.Pointer:
		if at, isArr := u.Elem().Underlying().(*types.Array); isArr && !isByte(at.Elem()) {
			return &Ptr{Kind: "arr", Ref: take(), Root: u.Elem(), Typ: t}
		}
		return &Ptr{Kind: "obj", Ref: take(), Root: u.Elem(), Typ: t}
	case *types.Map:
		return &MapV{Ref: take(), Typ: t}
	case *types.Interface:
		return &Iface{T: take(), Typ: t}
	case *types.Signature:
		a := take()
		if fv, ok := e.funcByID[a]; ok {
			return &FuncV{Fn: fv.Fn, Bind: fv.Bind, Typ: t}
		}
		return &FuncV{Abs: a, Typ: t}
	default:
		return &Sc{T: take(), Sort: e.scalarSort(t), Typ: t}
	}
}

func (e *Env) fromLeaves(t types.Type, terms []string) Value {
	ts := append([]string(nil), terms...)
	return e.unflatten(t, &ts)
}

func (e *Env) zeroLeaf(l Leaf) string {
	if l.Zero != "" {
		return l.Zero
	}
	switch l.Sort {
	case sBool:
		return tFalse
	case sBV8:
		return "#x00"
	case sBV64:
		return "(_ bv0 64)"
	case sF64:
		return "((_ to_fp 11 53) RNE 0.0)"
	}
	return "0"
}

func (e *Env) zeroValue(t types.Type) Value {
	ls := e.leavesOf(t)
	ts := make([]string, len(ls))
	for i, l := range ls {
		ts[i] = e.zeroLeaf(l)
	}
	return e.fromLeaves(t, ts)
}

// freshValue creates a fresh symbolic value of type t with type-range assumptions.
func (e *Env) freshValue(t types.Type, hint string) Value {
	ls := e.leavesOf(t)
	ts := make([]string, len(ls))
	for i, l := range ls {
		ts[i] = e.fresh(hint+l.Path, l.Sort)
		if r := e.rangeFact(ts[i], l); r != tTrue {
			e.assume(r)
		}
	}
	v := e.fromLeaves(t, ts)
	e.assumeShape(v)
	return v
}

// rangeFact is the type-range fact for a leaf term.
func (e *Env) rangeFact(term string, l Leaf) string {
	if l.Sort != sInt {
		return tTrue
	}
	return e.typeRange(term, l.Typ)
}

func intBounds(b *types.Basic) (lo, hi string, ok bool) {
	switch b.Kind() {
	case types.Int, types.Int64:
		return "(- 9223372036854775808)", "9223372036854775807", true
	case types.Int32:
		return "(- 2147483648)", "2147483647", true
	case types.Int16:
		return "(- 32768)", "32767", true
	case types.Int8:
		return "(- 128)", "127", true
	case types.Uint, types.Uint64, types.Uintptr:
		return "0", "18446744073709551615", true
	case types.Uint32:
		return "0", "4294967295", true
	case types.Uint16:
		return "0", "65535", true
	case types.Uint8:
		return "0", "255", true
	}
	return "", "", false
}

func (e *Env) typeRange(term string, t types.Type) string {
	switch u := t.Underlying().(type) {
	case *types.Basic:
		if lo, hi, ok := intBounds(u); ok {
			return mkAnd(sx("<=", lo, term), sx("<=", term, hi))
		}
		return tTrue
	case *types.Pointer, *types.Map, *types.Chan:
		return sx("<=", "0", term)
	case *types.Interface, *types.Signature:
		return sx("<=", "0", term)
	}
	return tTrue
}

// assumeShape adds well-formedness facts for slices inside v (0<=off, 0<=len<=cap).
func (e *Env) assumeShape(v Value) {
	switch x := v.(type) {
	case *Struct:
		for _, f := range x.F {
			e.assumeShape(f)
		}
	case *Tuple:
		for _, f := range x.V {
			e.assumeShape(f)
		}
	case *Slice:
		e.assume(e.sliceWF(x))
	}
}

// maxElems is the largest possible number of elements of a slice with this element type
// (gc runtime, 64-bit: maxAlloc = 2^48 bytes).
func maxElems(elem types.Type) string {
	sz := types.SizesFor("gc", "amd64").Sizeof(elem)
	if sz <= 0 {
		sz = 1
	}
	return fmt.Sprint((int64(1) << 48) / sz)
}

func (e *Env) sliceWF(x *Slice) string {
	bound := "281474976710656"
	if st, ok := x.Typ.Underlying().(*types.Slice); ok {
		bound = maxElems(st.Elem())
	}
	return mkAnd(sx("<=", "0", x.Arr), sx("<=", "0", x.Off), sx("<=", "0", x.Len), sx("<=", x.Len, x.Cap),
		sx("<=", x.Cap, bound),
		mkImp(mkEq(x.Arr, "0"), mkAnd(mkEq(x.Len, "0"), mkEq(x.Cap, "0"))))
}

// merge returns ite(c, a, b) leafwise.
func (e *Env) merge(c string, a, b Value) Value {
	if c == tTrue {
		return a
	}
	if c == tFalse {
		return b
	}
	// statically known function values and interior pointers: must be identical
	if fa, ok := a.(*FuncV); ok && fa.Fn != nil {
		fb, ok2 := b.(*FuncV)
		if ok2 && fb.Fn == fa.Fn && len(fa.Bind) == len(fb.Bind) {
			nb := make([]Value, len(fa.Bind))
			for i := range fa.Bind {
				nb[i] = e.merge(c, fa.Bind[i], fb.Bind[i])
			}
			return &FuncV{Fn: fa.Fn, Bind: nb, Typ: fa.Typ}
		}
	}
	if pa, ok := a.(*Ptr); ok {
		if pb, ok2 := b.(*Ptr); ok2 && pa.Kind == pb.Kind && samePath(pa.Path, pb.Path) && (pa.Kind != "obj" || len(pa.Path) > 0) {
			if pa.Kind == "elem" || len(pa.Path) > 0 {
				return &Ptr{Kind: pa.Kind, Ref: mkIte(c, pa.Ref, pb.Ref), Idx: mkIteOpt(c, pa.Idx, pb.Idx), Root: pa.Root, Path: pa.Path, Typ: pa.Typ}
			}
		}
	}
	fa, fb := e.flatten(a), e.flatten(b)
	if len(fa) != len(fb) {
		unsupp("merge of differently shaped values %T %T", a, b)
	}
	out := make([]string, len(fa))
	for i := range fa {
		out[i] = e.maybeName(mkIte(c, fa[i], fb[i]), e.leavesOf(a.vtype())[i].Sort)
	}
	return e.fromLeaves(a.vtype(), out)
}

func mkIteOpt(c, a, b string) string {
	if a == "" && b == "" {
		return ""
	}
	return mkIte(c, a, b)
}

func samePath(a, b []int) bool {
	if len(a) != len(b) {
		return false
	}
	for i := range a {
		if a[i] != b[i] {
			return false
		}
	}
	return true
}

// valueEq builds the equality of two values of the same type.
func (e *Env) valueEq(a, b Value) string {
	fa, fb := e.flatten(a), e.flatten(b)
	if len(fa) != len(fb) {
		unsupp("equality of differently shaped values %T %T", a, b)
	}
	var cs []string
	for i := range fa {
		cs = append(cs, mkEq(fa[i], fb[i]))
	}
	return mkAnd(cs...)
}

func boolV(t string) *Sc { return &Sc{T: t, Sort: sBool, Typ: types.Typ[types.Bool]} }
func intV(t string, typ types.Type) *Sc {
	return &Sc{T: t, Sort: sInt, Typ: typ}
}
