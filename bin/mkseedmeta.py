#!/usr/bin/env python3
"""Writes seeded/<id>-<n>/meta.json from NOTES.md (sub-agent's description), patch.diff,
result.json (bin/seedconfirm.sh) and the last sweep log (bin/seedsweep > seeded/SWEEP.txt)."""
import json, os, re, sys
root = os.path.join(os.path.dirname(os.path.abspath(__file__)), '..', 'seeded')
sweep = {}
sp = os.path.join(root, 'SWEEP.txt')
if os.path.exists(sp):
    for ln in open(sp):
        f = ln.split()
        if len(f) >= 2:
            sweep[f[0]] = {'outcome': f[1], 'obligations': [x for x in f[2:] if x != 'no-failing-input-found']}
for d in sorted(os.listdir(root)):
    p = os.path.join(root, d)
    if not os.path.isdir(p) or not re.match(r'C\d\d-\d$', d):
        continue
    prop, n = d.split('-')
    notes = ''
    for cand in (os.path.join(p, 'NOTES.md'), os.path.join(root, prop + '-1', 'NOTES.md')):
        if os.path.exists(cand):
            notes = open(cand).read()
            break
    secs = re.split(r'(?m)^## ', notes)
    title, body = '', ''
    for s in secs[1:]:
        if re.match(r'Change %s\b' % n, s):
            title = s.split('\n', 1)[0].strip()
            body = s.split('\n', 1)[1].strip() if '\n' in s else ''
            break
    if len(title) < 12 and body:
        first = next((l.strip(' -*') for l in body.split('\n') if l.strip(' -*')), '')
        title = (title + ' — ' + first)[:160]
    files = re.findall(r'(?m)^\+\+\+ b/(\S+)', open(os.path.join(p, 'patch.diff')).read())
    res = json.load(open(os.path.join(p, 'result.json'))) if os.path.exists(os.path.join(p, 'result.json')) else {}
    demo = open(os.path.join(p, 'demo_test.go')).readline().strip()
    meta = {
        'seed': d, 'property': prop, 'base_commit': res.get('base', 'df6eed6'),
        'title': title, 'files_changed': files,
        'what_it_breaks_and_what_it_needs_to_manifest': body[:2500],
        'demo': {'file': 'demo_test.go', 'destination_in_repo': demo.replace('// dest:', '').strip()},
        'confirmed_by_me': {
            'how': 'bin/seedconfirm.sh %s: fresh worktree of the pinned commit under /tmp; demo without the change; git apply patch.diff; go build ./...; demo with the change; full suite (GOFLAGS=-mod=mod GOPROXY=off go test -vet=off -count=1 -timeout 25m ./...) with the change; worktree removed' % d,
            'result': res},
        'checked_with': 'bin/seedsweep (git -C /repo apply patch.diff; bin/check %s quick; git -C /repo apply -R patch.diff)' % prop,
        'detection': sweep.get(d, {'outcome': 'not-run'}),
    }
    json.dump(meta, open(os.path.join(p, 'meta.json'), 'w'), indent=1)
    print(d, meta['detection']['outcome'], title[:60])
