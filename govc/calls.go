package main

// Calls: builtins, contracts, inlining, externs, interface invocation, defers, range.

import (
	"fmt"
	"os"
	"go/types"
	"strings"

	"golang.org/x/tools/go/ssa"
)

func (e *Env) topItem() *Item {
	if e.cur == nil {
		return nil
	}
	f := e.cur
	for f.parent != nil {
		f = f.parent
	}
	return f.item
}

func resultValue(t types.Type, vals []Value) Value {
	switch len(vals) {
	case 0:
		return nil
	case 1:
		return vals[0]
	}
	return &Tuple{V: vals, Typ: t}
}

func (e *Env) call(fr *Frame, c *ssa.CallCommon, instr ssa.Value, st *State) Value {
	var args []Value
	for _, a := range c.Args {
		args = append(args, e.get(fr, a, st))
	}
	var rt types.Type
	if instr != nil {
		rt = instr.Type()
	} else {
		rt = c.Signature().Results()
	}
	if c.IsInvoke() {
		recv := e.get(fr, c.Value, st)
		e.ghostAt(fr, "call", c.Method.Name()+"|"+recvTypeName(c.Value.Type())+"."+c.Method.Name(), append([]Value{recv}, args...), st)
		return e.invoke(fr, recv, c.Method, args, rt, st)
	}
	switch f := c.Value.(type) {
	case *ssa.Builtin:
		return e.builtin(fr, f, c, args, rt, st)
	case *ssa.Function:
		e.ghostAt(fr, "call", staticCallNames(f), args, st)
		return e.callStatic(fr, f, nil, args, rt, st)
	}
	fv := e.get(fr, c.Value, st)
	return e.callValue(fr, fv, args, rt, st)
}

func (e *Env) callValue(fr *Frame, fv Value, args []Value, rt types.Type, st *State) Value {
	f, ok := fv.(*FuncV)
	if !ok {
		unsupp("call of %T", fv)
	}
	if f.Fn != nil {
		return e.callStatic(fr, f.Fn, f.Bind, args, rt, st)
	}
	// unknown function value
	e.panicCheck(fr, "nilfunc", st, mkNot(mkEq(f.Abs, "0")))
	top := e.topItem()
	if top != nil && top.Opts["callbacks"] == "trace" {
		// the callback is unknown code that does not touch modelled state; each call is logged
		// on the ghost trace `cb`: (function value, first argument leaf, result as 0/1 or value)
		e.trust("callbacks through function values are assumed not to touch modelled state (opt callbacks trace)")
		var res Value
		if tup, ok := rt.(*types.Tuple); !(ok && tup.Len() == 0) {
			res = e.freshValue(rt, "cbres")
		}
		comps := []string{f.Abs}
		if len(args) > 0 {
			comps = append(comps, e.flatten(args[0])[0])
		} else {
			comps = append(comps, "0")
		}
		if res != nil {
			r := e.flatten(res)[0]
			if sc, ok := res.(*Sc); ok && sc.Sort == sBool {
				r = mkIte(r, "1", "0")
			}
			comps = append(comps, r)
		} else {
			comps = append(comps, "0")
		}
		if !fr.pure {
			e.emit(st, "cb", comps)
		}
		return res
	}
	if top != nil && top.Opts["callbacks"] == "setters" {
		// option-style callbacks: may write through their pointer arguments (the pointees become
		// arbitrary) and touch nothing else
		e.trust("callbacks through function values may overwrite what their pointer arguments point to and are assumed to touch nothing else (opt callbacks setters)")
		for _, a := range args {
			if p, ok := a.(*Ptr); ok && p.Kind != "arr" {
				e.store(st, p, e.freshValue(p.pointee(), "setter"))
			}
		}
		if tup, ok := rt.(*types.Tuple); ok && tup.Len() == 0 {
			return nil
		}
		return e.freshValue(rt, "cbres")
	}
	if top != nil && top.Opts["callbacks"] == "pure" {
		e.trust("callbacks through function values are assumed not to touch modelled state (opt callbacks pure)")
		if tup, ok := rt.(*types.Tuple); ok && tup.Len() == 0 {
			return nil
		}
		return e.freshValue(rt, "cbres")
	}
	if os.Getenv("GOVC_DEBUG") != "" {
		fmt.Fprintf(os.Stderr, "DEBUG unknown func value: %#v in %s\n", f, fr.fn)
		for k, v := range fr.regs {
			fmt.Fprintf(os.Stderr, "   reg %s (%T) = %T %v\n", k.Name(), k, v, v)
		}
	}
	unsupp("call through an unknown function value in %s", fr.fn.Name())
	return nil
}

func (e *Env) inCallStack(fr *Frame, fn *ssa.Function) bool {
	for f := fr; f != nil; f = f.parent {
		if f.fn == fn {
			return true
		}
	}
	return false
}

func (e *Env) callStatic(fr *Frame, fn *ssa.Function, bind []Value, args []Value, rt types.Type, st *State) Value {
	name := fn.String()
	if h := findExtern(name, fn); h != nil {
		e.trust("extern " + name)
		return h(e, fr, fn, args, rt, st)
	}
	top := e.topItem()
	it := e.w.contractFor(fn)
	forceInline := false
	if top != nil {
		for _, n := range top.Inline {
			if n == shortName(fn) || n == fn.Name() || n == "*" {
				forceInline = true
			}
		}
	}
	if it != nil && !forceInline && !(fr.pure && len(fn.Blocks) > 0) {
		return e.applyContract(fr, it, fn, args, rt, st)
	}
	if len(fn.Blocks) == 0 {
		unsupp("no contract or body for %s", name)
	}
	if !inRepo(fn) {
		unsupp("no extern contract for %s", name)
	}
	if fr.depth >= maxInlineDepth || e.inCallStack(fr, fn) {
		unsupp("cannot inline %s (recursion or depth); it needs a contract", name)
	}
	return e.inline(fr, fn, bind, args, rt, st)
}

// inline executes the callee body in place.
func (e *Env) inline(fr *Frame, fn *ssa.Function, bind []Value, args []Value, rt types.Type, st *State) Value {
	if e.dry == 0 && !fr.pure {
		e.inlined[funcQName(fn)] = true
	}
	if cit := e.w.contractFor(fn); cit != nil && len(cit.Emits) > 0 && !fr.pure {
		e.emitFor(cit, e.specCtx(fn, st, nil, e.contractVars(cit, fn, args)), st)
	}
	nf := &Frame{fn: fn, parent: fr, depth: fr.depth + 1, item: fr.item, loopPrefix: fr.loopPrefix + shortNameBare(fn) + ".",
		pure: fr.pure, entrySt: fr.entrySt, specVars: fr.specVars, loopPhis: fr.loopPhis, sname: shortName(fn)}
	nf.regs = map[ssa.Value]Value{}
	for i, fv := range fn.FreeVars {
		nf.regs[fv] = bind[i]
	}
	res, out := e.execFunc(nf, args, st)
	if out == nil {
		// callee never returns (always panics): the rest of this path is dead
		st.pc = tFalse
		if tup, ok := rt.(*types.Tuple); ok && tup.Len() == 0 {
			return nil
		}
		return e.zeroValue(rt)
	}
	// continue in the caller under the merged return state
	st.heap = out.heap
	st.next = out.next
	st.pc = out.pc
	return resultValue(rt, res)
}

func shortNameBare(fn *ssa.Function) string { return fn.Name() }

// ---------------------------------------------------------------------------
// contracts at call sites

type modLoc struct {
	kind string // field, elems, mapall, obj
	ptr  *Ptr
	sl   *Slice
	mp   *MapV
}

func (e *Env) contractVars(it *Item, fn *ssa.Function, args []Value) map[string]Value {
	vars := map[string]Value{}
	for i, p := range fn.Params {
		if i < len(args) {
			vars[p.Name()] = args[i]
		}
	}
	// the names the contract was written against (a parameter renamed since then keeps its
	// position): see contract-params.json
	if rec := e.w.recordedParams[it.Pkg+"::"+it.Name]; rec != nil && len(rec["params"]) == len(fn.Params) {
		for i, n := range rec["params"] {
			if _, taken := vars[n]; !taken && n != "" && n != "_" && i < len(args) {
				vars[n] = args[i]
			}
		}
	}
	return vars
}

// bindRecordedResults binds the result names the contract was written against (by position).
func (e *Env) bindRecordedResults(vars map[string]Value, it *Item, fn *ssa.Function, results []Value) {
	rec := e.w.recordedParams[it.Pkg+"::"+it.Name]
	if rec == nil || len(rec["results"]) != fn.Signature.Results().Len() {
		return
	}
	for i, n := range rec["results"] {
		if _, taken := vars[n]; !taken && n != "" && n != "_" && i < len(results) {
			vars[n] = results[i]
		}
	}
}

func bindResults(vars map[string]Value, fn *ssa.Function, results []Value) {
	res := fn.Signature.Results()
	for i := 0; i < res.Len(); i++ {
		if n := res.At(i).Name(); n != "" && n != "_" {
			vars[n] = results[i]
		}
		vars[fmt.Sprintf("result%d", i)] = results[i]
	}
	if res.Len() == 1 {
		vars["result"] = results[0]
	}
}

func (e *Env) specCtx(fn *ssa.Function, st, old *State, vars map[string]Value) *SpecCtx {
	pkg := e.pkgOf(fn)
	return &SpecCtx{e: e, st: st, old: old, vars: vars, pkg: pkg}
}

func (e *Env) pkgOf(fn *ssa.Function) *types.Package {
	f := fn
	if o := fn.Origin(); o != nil {
		f = o
	}
	for f.Parent() != nil {
		f = f.Parent()
	}
	if f.Pkg != nil {
		return f.Pkg.Pkg
	}
	return nil
}

func (e *Env) applyContract(fr *Frame, it *Item, fn *ssa.Function, args []Value, rt types.Type, st *State) Value {
	vars := e.contractVars(it, fn, args)
	callee := shortName(fn)
	k := e.nextOrdinalIfReal("pre@" + callee)
	ctx := e.specCtx(fn, st, nil, vars)
	if !fr.pure {
		for i, c := range it.Clauses {
			if c.Kind != "requires" {
				continue
			}
			t := ctx.boolTerm(c.Expr)
			label := c.Label
			if label == "" {
				label = fmt.Sprint(i)
			}
			e.oblige("pre", fmt.Sprintf("%s#%d:%s", callee, k, label), st.pc, t)
			e.assume(mkImp(st.pc, t))
		}
	}
	if e.dry == 0 {
		e.usedContracts[funcQName(fn)] = true
		if it.Trusted {
			e.trust("trusted (unverified) contract of " + funcQName(fn) + ": " + it.Opts["trusted-reason"])
		}
	}
	e.emitFor(it, ctx, st)
	old := st.clone()
	// havoc the modifies set
	e.havocModifies(it, ctx, st)
	// results
	var results []Value
	res := fn.Signature.Results()
	for i := 0; i < res.Len(); i++ {
		v := e.freshValue(res.At(i).Type(), callee+"_res")
		for j, l := range e.leavesOf(res.At(i).Type()) {
			if l.Sort == sInt && (isRefType(l.Typ) || strings.HasSuffix(l.Path, "#arr")) {
				e.assume(sx("<", e.flatten(v)[j], st.next))
			}
		}
		results = append(results, v)
	}
	bindResults(vars, fn, results)
	e.bindRecordedResults(vars, it, fn, results)
	post := e.specCtx(fn, st, old, vars)
	for _, c := range it.Clauses {
		if c.Kind != "ensures" && c.Kind != "ghostensures" {
			continue
		}
		e.assume(mkImp(st.pc, post.boolTerm(c.Expr)))
	}
	return resultValue(rt, results)
}

// havocModifies replaces the locations named by the modifies clauses by fresh values.
func (e *Env) havocModifies(it *Item, ctx *SpecCtx, st *State) {
	// the locations named by the modifies clauses are those of the pre-call state (e.g.
	// `s.items, s.items[*]`: the elements of the slice as it was, not of its havocked header)
	pre := ctx.inState(st.clone())
	if pv, ok := it.Opts["preserves"]; ok {
		// unknown code behind the callee: everything but the preserved types may change; the
		// callee's own declared modifications (which may lie inside preserved types) come on top
		e.havocAllBut(st, e.w.preservedTypes(it))
		e.trust("calls into unknown code behind " + it.Name + " are assumed to leave the fields of the types in '" + pv + "' unchanged (and may change everything else)")
	}
	allocMay := false
	for _, c := range it.Clauses {
		if c.Kind != "modifies" {
			continue
		}
		for _, x := range c.Exprs {
			if x.Op == "ident" && x.Name == "alloc" {
				allocMay = true
				continue
			}
			e.havocLoc(pre, x, st)
		}
	}
	if allocMay || it.Opts["allocates"] != "" {
		nx := e.fresh("next", sInt)
		e.assume(sx("<=", st.next, nx))
		st.next = nx
	}
}

func (e *Env) havocLoc(ctx *SpecCtx, x *SExpr, st *State) {
	if e.writeLog != nil {
		e.writeLog["*callee-modifies*"] = append(e.writeLog["*callee-modifies*"], x.String())
	}
	switch x.Op {
	case "call":
		if x.Name == "trace" && len(x.Args) == 1 {
			ch := x.Args[0].String()
			for n := range e.heapSorts {
				if strings.HasPrefix(n, "T!"+ch+"!") {
					st.heap[n] = e.fresh("mod_trace", "(Array Int Int)")
				}
			}
			ln := "T!" + ch + "!len"
			e.heapGet(st, ln, "(Array Int Int)")
			st.heap[ln] = e.fresh("mod_tracelen", "(Array Int Int)")
			e.assume(sx("<=", "0", mkSelect(st.heap[ln], "0")))
			return
		}
		specFail("modifies %s", x)
	case "sel":
		fp := ctx.locOf(x)
		if fp == nil {
			specFail("modifies %s: not a location", x)
		}
		e.store(st, fp, e.freshValue(fp.pointee(), "mod_"+x.Name))
	case "allelems":
		base := ctx.eval(x.Args[0])
		switch b := base.(type) {
		case *Slice:
			et := b.Typ.Underlying().(*types.Slice).Elem()
			names, sorts, leaves := e.elemArrays(et)
			for i, name := range names {
				arr := e.heapGet(st, name, sorts[i])
				inner := e.fresh("mod_elems", "(Array Int "+leaves[i].Sort+")")
				e.heapSet(st, name, sorts[i], e.maybeName(mkStore(arr, b.Arr, inner), sorts[i]))
			}
		case *MapV:
			mt := b.Typ.Underlying().(*types.Map)
			dn, sn, ks := e.mapNames(mt)
			ds := heapSort("M", sBool, ks)
			e.heapSet(st, dn, ds, mkStore(e.heapGet(st, dn, ds), b.Ref, e.fresh("mod_dom", "(Array "+ks+" Bool)")))
			ss := heapSort("F", sInt, "")
			nsz := e.fresh("mod_size", sInt)
			e.assume(sx("<=", "0", nsz))
			e.heapSet(st, sn, ss, mkStore(e.heapGet(st, sn, ss), b.Ref, nsz))
			for _, l := range e.leavesOf(mt.Elem()) {
				name := "M!" + typeKey(mt) + "!val" + l.Path
				srt := heapSort("M", l.Sort, ks)
				e.heapSet(st, name, srt, mkStore(e.heapGet(st, name, srt), b.Ref, e.fresh("mod_val", "(Array "+ks+" "+l.Sort+")")))
			}
		default:
			specFail("modifies %s: not a slice or map", x)
		}
	case "unop":
		if x.Name == "*" {
			base := ctx.eval(x.Args[0])
			p, ok := base.(*Ptr)
			if !ok {
				specFail("modifies %s: not a pointer", x)
			}
			e.store(st, p, e.freshValue(p.pointee(), "mod_obj"))
			return
		}
		specFail("modifies %s", x)
	case "paren":
		e.havocLoc(ctx, x.Args[0], st)
	case "index":
		base := ctx.eval(x.Args[0])
		if b, ok := base.(*Slice); ok {
			et := b.Typ.Underlying().(*types.Slice).Elem()
			i := ctx.intTerm(ctx.eval(x.Args[1]))
			p := &Ptr{Kind: "elem", Ref: b.Arr, Idx: ixTerm(b.Off, i), Root: et}
			e.store(st, p, e.freshValue(et, "mod_elem"))
			return
		}
		specFail("modifies %s", x)
	default:
		specFail("modifies %s: unsupported location", x)
	}
}

// ---------------------------------------------------------------------------
// interface method invocation

func isLoggerType(t types.Type) bool {
	n, ok := t.(*types.Named)
	return ok && n.Obj().Pkg() != nil && strings.HasSuffix(n.Obj().Pkg().Path(), "/logging") && n.Obj().Name() == "Logger"
}

func (e *Env) invoke(fr *Frame, recv Value, m *types.Func, args []Value, rt types.Type, st *State) Value {
	rtyp := recv.vtype()
	if isLoggerType(rtyp) {
		e.trust("logging.Logger methods: no effect on modelled state, do not panic")
		if tup, ok := rt.(*types.Tuple); ok && tup.Len() == 0 {
			return nil
		}
		return e.freshValue(rt, "log")
	}
	iv, ok := recv.(*Iface)
	if !ok {
		unsupp("invoke on %T", recv)
	}
	if h := findIfaceExtern(rtyp, m); h != nil {
		e.trust("extern interface method " + types.TypeString(rtyp, nil) + "." + m.Name())
		return h(e, fr, iv, m, args, rt, st)
	}
	// interface contract
	if nt, ok := rtyp.(*types.Named); ok && nt.Obj().Pkg() != nil {
		key := nt.Obj().Pkg().Path() + "::" + nt.Obj().Name() + "." + m.Name()
		if it := e.w.ifaceItems[key]; it != nil {
			return e.applyIfaceContract(fr, it, iv, m, args, rt, st)
		}
	}
	unsupp("no contract for interface method %s.%s", types.TypeString(rtyp, nil), m.Name())
	return nil
}

func (e *Env) applyIfaceContract(fr *Frame, it *Item, recv *Iface, m *types.Func, args []Value, rt types.Type, st *State) Value {
	e.panicCheck(fr, "nil", st, mkNot(mkEq(recv.T, "0")))
	sig := m.Type().(*types.Signature)
	vars := map[string]Value{"self": recv}
	for i := 0; i < sig.Params().Len(); i++ {
		n := sig.Params().At(i).Name()
		if n == "" || n == "_" {
			n = fmt.Sprintf("arg%d", i)
		}
		vars[n] = args[i]
		vars[fmt.Sprintf("arg%d", i)] = args[i]
	}
	pkg := e.w.typesPkg(it.Pkg)
	ctx := &SpecCtx{e: e, st: st, vars: vars, pkg: pkg}
	callee := it.Name
	k := e.nextOrdinalIfReal("pre@" + callee)
	if !fr.pure {
		for i, c := range it.Clauses {
			if c.Kind != "requires" {
				continue
			}
			t := ctx.boolTerm(c.Expr)
			label := c.Label
			if label == "" {
				label = fmt.Sprint(i)
			}
			e.oblige("pre", fmt.Sprintf("%s#%d:%s", callee, k, label), st.pc, t)
			e.assume(mkImp(st.pc, t))
		}
	}
	if e.dry == 0 {
		e.usedContracts["interface "+it.Pkg+"."+it.Name] = true
	}
	if it.Opts["iterates"] != "" && !fr.pure {
		if e.iterateClosure(fr, it, recv, args, vars, pkg, st) {
			if tup, ok := rt.(*types.Tuple); ok && tup.Len() == 0 {
				return nil
			}
			return e.freshValue(rt, "iter")
		}
	}
	e.emitFor(it, ctx, st)
	old := st.clone()
	e.havocModifies(it, ctx, st)
	var results []Value
	for i := 0; i < sig.Results().Len(); i++ {
		v := e.freshValue(sig.Results().At(i).Type(), callee+"_res")
		for j, l := range e.leavesOf(sig.Results().At(i).Type()) {
			if l.Sort == sInt && (isRefType(l.Typ) || strings.HasSuffix(l.Path, "#arr")) {
				e.assume(sx("<", e.flatten(v)[j], st.next))
			}
		}
		results = append(results, v)
		if n := sig.Results().At(i).Name(); n != "" && n != "_" {
			vars[n] = v
		}
		vars[fmt.Sprintf("result%d", i)] = v
	}
	if len(results) == 1 {
		vars["result"] = results[0]
	}
	post := &SpecCtx{e: e, st: st, old: old, vars: vars, pkg: pkg}
	for _, c := range it.Clauses {
		if c.Kind == "ensures" || c.Kind == "ghostensures" {
			e.assume(mkImp(st.pc, post.boolTerm(c.Expr)))
		}
	}
	return resultValue(rt, results)
}

// ---------------------------------------------------------------------------
// spec-level calls of real code

// specCallReal executes a (loop-free, side-effect-free) function of the real code inside
// a spec expression. The state is not modified.
func (e *Env) specCallReal(c *SpecCtx, fn *ssa.Function, args []Value) Value {
	if it := e.w.contractFor(fn); it != nil && len(fn.Blocks) == 0 {
		unsupp("spec call of %s without body", fn)
	}
	if h := findExtern(fn.String(), fn); h != nil {
		st := c.st.clone()
		fr := &Frame{fn: fn, pure: true, sname: shortName(fn), depth: 1}
		return h(e, fr, fn, args, fn.Signature.Results(), st)
	}
	if len(fn.Blocks) == 0 {
		unsupp("spec call of %s: no body", fn)
	}
	res := e.pureCall(fn, nil, args, c.st)
	var rt types.Type = fn.Signature.Results()
	if fn.Signature.Results().Len() == 1 {
		rt = fn.Signature.Results().At(0).Type()
	}
	return resultValue(rt, res)
}

// pureCall executes fn (a loop-free function without side effects that matter) on a copy
// of the state and returns its results; no obligations are generated.
func (e *Env) pureCall(fn *ssa.Function, bind []Value, args []Value, st0 *State) []Value {
	st := st0.clone()
	st.pc = tTrue
	fr := &Frame{fn: fn, pure: true, sname: shortName(fn), depth: 1, item: nil}
	fr.regs = map[ssa.Value]Value{}
	for i, fv := range fn.FreeVars {
		fr.regs[fv] = bind[i]
	}
	e.dry++
	prev := e.cur
	res, _ := e.execFunc(fr, args, st)
	e.cur = prev
	e.dry--
	if res == nil && fn.Signature.Results().Len() > 0 {
		unsupp("pure call of %s never returns", fn)
	}
	return res
}

// specInvoke: interface method in a spec: uninterpreted function of the receiver (and
// arguments), named after the interface method. Used for model functions of interfaces.
func (e *Env) specInvoke(c *SpecCtx, recv *Iface, name string, args []Value) Value {
	it, ok := recv.Typ.Underlying().(*types.Interface)
	if !ok {
		specFail("method %s on non-interface", name)
	}
	var m *types.Func
	for i := 0; i < it.NumMethods(); i++ {
		if it.Method(i).Name() == name {
			m = it.Method(i)
		}
	}
	if m == nil {
		specFail("no method %s in %v", name, recv.Typ)
	}
	sig := m.Type().(*types.Signature)
	if sig.Results().Len() != 1 {
		specFail("model method %s must have one result", name)
	}
	return e.ifaceModel(recv, m, args)
}

// ifaceModel is the uninterpreted function modelling a pure interface method.
func (e *Env) ifaceModel(recv *Iface, m *types.Func, args []Value) Value {
	sig := m.Type().(*types.Signature)
	rt := sig.Results().At(0).Type()
	rl := e.leavesOf(rt)
	owner := "iface"
	if nt, ok := recv.Typ.(*types.Named); ok {
		owner = nt.Obj().Name()
	}
	ts := []string{recv.T}
	sorts := []string{sInt}
	for _, a := range args {
		ts = append(ts, e.flatten(a)...)
		for _, l := range e.leavesOf(a.vtype()) {
			sorts = append(sorts, l.Sort)
		}
	}
	out := make([]string, len(rl))
	for i, l := range rl {
		f := q("model!" + owner + "." + m.Name() + l.Path)
		if !e.declared[f] {
			e.declared[f] = true
			e.sess.Cmd("(declare-fun " + f + " (" + strings.Join(sorts, " ") + ") " + l.Sort + ")")
		}
		out[i] = sx(f, ts...)
	}
	return e.fromLeaves(rt, out)
}

// ---------------------------------------------------------------------------
// defers

func (e *Env) runDeferred(fr *Frame, d deferRec, st *State) {
	c := d.call
	if c.IsInvoke() {
		recv := d.fnv
		e.ghostAt(fr, "call", c.Method.Name()+"|"+recvTypeName(d.call.Value.Type())+"."+c.Method.Name(), append([]Value{recv}, d.args...), st)
		e.invoke(fr, recv, c.Method, d.args, c.Signature().Results(), st)
		return
	}
	switch f := c.Value.(type) {
	case *ssa.Builtin:
		if f.Name() == "recover" || f.Name() == "close" {
			return
		}
		unsupp("deferred builtin %s", f.Name())
	case *ssa.Function:
		e.ghostAt(fr, "call", staticCallNames(f), d.args, st)
		e.callStatic(fr, f, nil, d.args, c.Signature().Results(), st)
		return
	}
	e.callValue(fr, d.fnv, d.args, c.Signature().Results(), st)
}

// ---------------------------------------------------------------------------
// builtins

func (e *Env) builtin(fr *Frame, b *ssa.Builtin, c *ssa.CallCommon, args []Value, rt types.Type, st *State) Value {
	switch b.Name() {
	case "len":
		switch x := args[0].(type) {
		case *Slice:
			return intV(x.Len, rt)
		case *MapV:
			return intV(e.mapLen(st, x), rt)
		case *Sc:
			if isString(x.Typ) {
				e.declStrFuncs()
				return intV(sx("strlen", x.T), rt)
			}
			// channel length
			v := e.freshValue(rt, "chanlen")
			e.assume(sx("<=", "0", v.(*Sc).T))
			return v
		case *Ptr:
			if x.Kind == "arr" {
				return intV(fmt.Sprint(x.Root.Underlying().(*types.Array).Len()), rt)
			}
		}
		unsupp("len of %T", args[0])
	case "cap":
		switch x := args[0].(type) {
		case *Slice:
			return intV(x.Cap, rt)
		}
		unsupp("cap of %T", args[0])
	case "append":
		return e.appendOp(fr, args[0].(*Slice), args[1], st)
	case "copy":
		return e.copyOp(fr, args[0].(*Slice), args[1], rt, st)
	case "delete":
		e.mapDelete(st, args[0].(*MapV), args[1])
		return nil
	case "min", "max":
		a, bb := args[0].(*Sc), args[1].(*Sc)
		if len(args) != 2 || a.Sort != sInt {
			unsupp("min/max arity or sort")
		}
		if b.Name() == "min" {
			return intV(mkIte(sx("<=", a.T, bb.T), a.T, bb.T), rt)
		}
		return intV(mkIte(sx(">=", a.T, bb.T), a.T, bb.T), rt)
	case "print", "println":
		return nil
	case "recover":
		return &Iface{T: "0", Typ: rt}
	case "close":
		return nil
	case "clear":
		unsupp("clear")
	}
	unsupp("builtin %s", b.Name())
	return nil
}

// elemArrays returns the element heap arrays (name, sort, leaf) for an element type.
func (e *Env) elemArrays(et types.Type) (names, sorts []string, leaves []Leaf) {
	if srt, ctor, _, ok := e.packed(et); ok {
		var zs []string
		for _, l := range e.leavesOf(et) {
			zs = append(zs, e.zeroLeaf(l))
		}
		return []string{"E!" + typeKey(et) + "!"}, []string{heapSort("E", srt, "")}, []Leaf{{Path: "", Sort: srt, Typ: et, Zero: sx(ctor, zs...)}}
	}
	for _, l := range e.leavesOf(et) {
		names = append(names, "E!"+typeKey(et)+"!"+l.Path)
		sorts = append(sorts, heapSort("E", l.Sort, ""))
		leaves = append(leaves, l)
	}
	return
}

func (e *Env) appendOp(fr *Frame, s *Slice, more Value, st *State) Value {
	et := s.Typ.Underlying().(*types.Slice).Elem()
	var m *Slice
	switch x := more.(type) {
	case *Slice:
		m = x
	case *Sc:
		// append([]byte, string...)
		unsupp("append of string to []byte")
	default:
		unsupp("append of %T", more)
	}
	names, sorts, leaves := e.elemArrays(et)
	n := m.Len
	newLen := e.maybeName(sx("+", s.Len, n), sInt)
	fits := e.maybeName(sx("<=", newLen, s.Cap), sBool)
	// if the capacity provably suffices (the make(T, 0, n) + append idiom), model only the
	// in-place case; if it provably does not, only the reallocation
	if e.quantDepth == 0 && !fr.pure {
		if e.quickValid(mkImp(st.pc, fits)) {
			fits = tTrue
		} else if e.quickValid(mkImp(st.pc, mkNot(fits))) {
			fits = tFalse
		}
	}
	// case 1: in place; case 2: reallocation
	r := e.alloc(st)
	newCap := e.fresh("appcap", sInt)
	e.assume(mkAnd(sx(">=", newCap, newLen), sx("<=", newCap, maxElems(et))))
	// growing beyond the allocation limit panics ("growslice: len out of range")
	e.assume(mkImp(st.pc, sx("<=", newLen, maxElems(et))))
	e.trust("append/make never exceed the allocation limit (out-of-memory is outside the model)")
	resArr := e.maybeName(mkIte(fits, s.Arr, r), sInt)
	resOff := e.maybeName(mkIte(fits, s.Off, "0"), sInt)
	resCap := e.maybeName(mkIte(fits, s.Cap, newCap), sInt)
	// nil slice appended with nothing stays nil in Go; we over-approximate: result may be a fresh array (sound for safety)
	for i, name := range names {
		arr := e.heapGet(st, name, sorts[i])
		inner := "(Array Int " + leaves[i].Sort + ")"
		src := mkSelect(arr, m.Arr)
		old := mkSelect(arr, s.Arr)
		var newInner string
		if isNumeral(n) && atoi(n) <= 8 {
			// explicit stores
			base := mkIte(fits, old, e.copyPrefix(old, s, inner, leaves[i]))
			base = e.maybeName(base, inner)
			for j := 0; j < atoi(n); j++ {
				pos := ixTerm(resOff, addTerms(s.Len, fmt.Sprint(j)))
				base = mkStore(base, pos, mkSelect(src, ixTerm(m.Off, fmt.Sprint(j))))
			}
			newInner = e.maybeName(base, inner)
		} else {
			ni := e.fresh("appended", inner)
			j := "|$j|"
			// positions before resOff+len: as in the source array (old for in place; copied prefix for realloc)
			// positions in [resOff+len, resOff+len+n): from more
			// other positions: in place -> unchanged; realloc -> unspecified
			lo := sx("+", resOff, s.Len)
			fact := fmt.Sprintf("(forall ((%s Int)) (! (and (=> (and (<= %s %s) (< %s (+ %s %s))) (= (select %s %s) (select %s %s))) (=> (and (<= %s %s) (< %s %s)) (= (select %s %s) (select %s %s))) (=> (and %s (or (< %s %s) (>= %s (+ %s %s)))) (= (select %s %s) (select %s %s)))) :pattern ((select %s %s))))",
				j,
				lo, j, j, lo, n, ni, j, src, ixTerm(m.Off, sx("-", j, lo)),
				resOff, j, j, lo, ni, j, old, ixTerm(s.Off, sx("-", j, resOff)),
				fits, j, lo, j, lo, n, ni, j, old, j,
				ni, j)
			e.assume(fact)
			newInner = ni
		}
		e.heapSet(st, name, sorts[i], e.maybeName(mkStore(arr, resArr, newInner), sorts[i]))
		e.noteWrite(name, resArr)
	}
	res := &Slice{Arr: resArr, Off: resOff, Len: newLen, Cap: resCap, Typ: s.Typ}
	// appending a whole byte string onto an empty slice yields a copy of it: same content id
	// (content() is uninterpreted, so this consequence of the pointwise facts is stated here)
	if s.Len == "0" && len(names) == 1 && isByte(et) && e.quantDepth == 0 && !fr.pure {
		e.assume(mkImp(st.pc, mkEq(e.contentTerm(st, res), e.contentTermAt(st, m, e.heapGet(st, names[0], sorts[0])))))
	}
	return res
}

// copyPrefix builds the inner array of a reallocated slice: positions [0,len) hold the
// old elements; the rest is zero (fresh allocation).
func (e *Env) copyPrefix(old string, s *Slice, innerSort string, l Leaf) string {
	ni := e.fresh("realloc", innerSort)
	j := "|$j|"
	e.assume(fmt.Sprintf("(forall ((%s Int)) (! (=> (and (<= 0 %s) (< %s %s)) (= (select %s %s) (select %s %s))) :pattern ((select %s %s))))",
		j, j, j, s.Len, ni, j, old, ixTerm(s.Off, j), ni, j))
	return ni
}

func (e *Env) copyOp(fr *Frame, dst *Slice, srcv Value, rt types.Type, st *State) Value {
	src, ok := srcv.(*Slice)
	if !ok {
		unsupp("copy from %T", srcv)
	}
	et := dst.Typ.Underlying().(*types.Slice).Elem()
	names, sorts, leaves := e.elemArrays(et)
	n := e.maybeName(mkIte(sx("<=", dst.Len, src.Len), dst.Len, src.Len), sInt)
	// copy into the whole-value view of a [N]byte variable: the variable becomes
	// afrom(bytes copied, their number, old value); afrom(abytes(a), N, x) == a
	if vp, ok := e.arrayViews[dst.Arr]; ok && dst.Off == "0" && isByte(et) && !fr.pure {
		e.declBytesFuncs()
		if fl := e.flatten(e.load(st, vp)); len(fl) == 1 {
			nv := e.maybeNameForce(sx("|afrom!|", e.contentTerm(st, src), src.Len, fl[0]), sInt, "arrv")
			e.store(st, vp, e.fromLeaves(vp.pointee(), []string{nv}))
		}
	}
	for i, name := range names {
		arr := e.heapGet(st, name, sorts[i])
		inner := "(Array Int " + leaves[i].Sort + ")"
		old := mkSelect(arr, dst.Arr)
		srcA := mkSelect(arr, src.Arr)
		ni := e.fresh("copied", inner)
		j := "|$j|"
		e.assume(fmt.Sprintf("(forall ((%s Int)) (! (ite (and (<= %s %s) (< %s (+ %s %s))) (= (select %s %s) (select %s %s)) (= (select %s %s) (select %s %s))) :pattern ((select %s %s))))",
			j, dst.Off, j, j, dst.Off, n, ni, j, srcA, ixTerm(src.Off, sx("-", j, dst.Off)), ni, j, old, j, ni, j))
		e.heapSet(st, name, sorts[i], e.maybeName(mkStore(arr, dst.Arr, ni), sorts[i]))
		e.noteWrite(name, dst.Arr)
	}
	return intV(n, rt)
}

// ---------------------------------------------------------------------------
// range over maps: a loop over a havocked visited set (DESIGN 2.3)

type rangeIter struct {
	m    *MapV
	vis  string // heap name of the visited set of this iteration: (Array <key> Bool)
	dom0 string // the map's key set when the iteration started
	ks   string
}

func (r *rangeIter) vtype() types.Type { return nil }

// rangeOrdinal numbers the range-over-map instructions of a function in program order.
func rangeOrdinal(x *ssa.Range) int {
	n := 0
	for _, b := range x.Parent().Blocks {
		for _, ins := range b.Instrs {
			if r, ok := ins.(*ssa.Range); ok {
				if r == x {
					return n
				}
				if _, isMap := r.X.Type().Underlying().(*types.Map); isMap {
					n++
				}
			}
		}
	}
	return n
}

// Map iteration: every step yields a key that is present and has not been visited; when the
// iteration ends, every key that was present at the start and still is has been visited (Go
// spec: entries removed are not produced, entries added may or may not be). The visited set is
// ghost state `V!<function>!<n>` (n-th range over a map in the function, program order),
// readable in invariants as visited(n, k).
func (e *Env) rangeInit(fr *Frame, x *ssa.Range, st *State) Value {
	v := e.get(fr, x.X, st)
	m, ok := v.(*MapV)
	if !ok {
		unsupp("range over %T", v)
	}
	mt := m.Typ.Underlying().(*types.Map)
	dn, _, ks := e.mapNames(mt)
	name := fmt.Sprintf("V!%s!%d", sanitize(fr.fn.Name()), rangeOrdinal(x))
	srt := "(Array " + ks + " Bool)"
	e.heapSorts[name] = srt
	e.cellArray[name] = true
	st.heap[name] = constArray(srt, tFalse)
	e.declared[name] = true
	dom := e.heapGet(st, dn, heapSort("M", sBool, ks))
	dom0 := e.maybeNameForce(mkSelect(dom, m.Ref), srt, "dom0")
	return &rangeIter{m: m, vis: name, dom0: dom0, ks: ks}
}

func (e *Env) rangeNext(fr *Frame, x *ssa.Next, st *State) Value {
	it, ok := e.get(fr, x.Iter, st).(*rangeIter)
	if !ok {
		unsupp("next on non-map iterator")
	}
	mt := it.m.Typ.Underlying().(*types.Map)
	srt := "(Array " + it.ks + " Bool)"
	okv := e.fresh("rangeok", sBool)
	key := e.freshValue(mt.Key(), "rangekey")
	val, in := e.mapLookup(st, it.m, key)
	k := e.mapKeyTerm(mt, key)
	vis := st.heap[it.vis]
	if vis == "" {
		vis = constArray(srt, tFalse)
	}
	e.assume(mkImp(okv, mkAnd(in, mkNot(mkSelect(vis, k)))))
	// if the map is empty the iteration ends immediately
	e.assume(mkImp(mkEq(e.mapLen(st, it.m), "0"), mkNot(okv)))
	// at the end everything that was present at the start and still is has been visited
	dn, _, _ := e.mapNames(mt)
	dom := e.heapGet(st, dn, heapSort("M", sBool, it.ks))
	kq := "|$k|"
	e.assume(mkImp(mkAnd(st.pc, mkNot(okv)), fmt.Sprintf("(forall ((%s %s)) (! (=> (and (select %s %s) (select (select %s %s) %s)) (select %s %s)) :pattern ((select %s %s))))",
		kq, it.ks, it.dom0, kq, dom, it.m.Ref, kq, vis, kq, vis, kq)))
	// a non-empty map has a member (witness constant): together with the completeness fact
	// above, a loop over an unmodified non-empty map has visited at least one key at the end
	wk := e.mapKeyTerm(mt, e.freshValue(mt.Key(), "rangewit"))
	e.assume(mkImp(mkAnd(st.pc, mkNot(okv), sx(">", e.mapLen(st, it.m), "0")),
		mkAnd(mkSelect(mkSelect(dom, it.m.Ref), wk), mkImp(mkSelect(it.dom0, wk), mkSelect(vis, wk)))))
	st.heap[it.vis] = e.maybeNameForce(mkIte(okv, mkStore(vis, k, tTrue), vis), srt, "vis")
	e.noteWrite(it.vis, k)
	e.trust("map iteration: arbitrary order; each present, not yet visited key once; complete over the keys present from start to end")
	tup := x.Type().(*types.Tuple)
	kv := key
	vv := val
	if _, isInvalid := tup.At(1).Type().(*types.Basic); isInvalid && tup.At(1).Type() == types.Typ[types.Invalid] {
		kv = boolV(tFalse)
	}
	return &Tuple{V: []Value{boolV(okv), kv, vv}, Typ: x.Type()}
}

// locOf evaluates a field-selection chain as a heap location (nil if it is not one).
func (c *SpecCtx) locOf(x *SExpr) *Ptr {
	for x.Op == "paren" {
		x = x.Args[0]
	}
	if x.Op != "sel" {
		return nil
	}
	var base *Ptr
	if inner := c.locOf(x.Args[0]); inner != nil {
		if _, isStruct := inner.pointee().Underlying().(*types.Struct); isStruct {
			base = inner
		}
	}
	if base == nil {
		v := c.eval(x.Args[0])
		p, ok := v.(*Ptr)
		if !ok {
			return nil
		}
		base = p
	}
	i, _ := fieldIndex(base.pointee(), x.Name)
	if i < 0 {
		return nil
	}
	return &Ptr{Kind: base.Kind, Ref: base.Ref, Idx: base.Idx, Root: base.Root, Path: append(append([]int(nil), base.Path...), i)}
}


// recvTypeName is the bare name of a (pointer to a) named type, "" otherwise.
func recvTypeName(t types.Type) string {
	if p, ok := t.Underlying().(*types.Pointer); ok {
		t = p.Elem()
	}
	if p, ok := t.(*types.Pointer); ok {
		t = p.Elem()
	}
	if n, ok := t.(*types.Named); ok {
		return n.Obj().Name()
	}
	return ""
}

// staticCallNames: "name" and, for a method, "Recv.name" (alternatives for `ghost at call`).
func staticCallNames(f *ssa.Function) string {
	if r := f.Signature.Recv(); r != nil {
		return f.Name() + "|" + recvTypeName(r.Type()) + "." + f.Name()
	}
	return f.Name()
}
