package main

import (
	"time"
	"context"
	"fmt"
	"regexp"
	"sync"
	"go/types"
	"sort"
	"strings"

	"golang.org/x/tools/go/ssa"
)

// Obligation is one named proof obligation and its outcome.
type Obligation struct {
	Name     string  `json:"name"`
	Func     string  `json:"func"`
	Kind     string  `json:"kind"` // post, pre, inv-init, inv-step, panic, frame, cover, lemma, ...
	Property string  `json:"property,omitempty"`
	Expect   string  `json:"expect"` // "unsat" (proof) or "sat" (cover)
	Verdict  string  `json:"verdict"`
	Solver   string  `json:"solver"`
	Time     float64 `json:"time_s"`
	OK       bool    `json:"ok"`
	Model    string  `json:"model,omitempty"`
	Query    string  `json:"-"` // standalone script
	Goal     string  `json:"goal,omitempty"`
	Note     string  `json:"note,omitempty"`
	Hinted   string  `json:"-"` // equisatisfiable variant: goal skolemised, same-binder assumptions instantiated
	PC       string  `json:"-"` // path condition of the program point (a named disjunction after merges)
}

// Env is the verification environment for one top-level function (or lemma).
type Env struct {
	w         *World
	sess      *Session
	top       string // qualified name of the function under verification
	prop      string
	byteBV    bool
	bvfp      bool
	counter   int
	declared  map[string]bool
	heapSorts map[string]string
	obs       []*Obligation
	dry       int
	strIDs    map[string]int
	funcIDs   map[*ssa.Function]int
	trusted   map[string]bool
	inlined   map[string]bool
	kindCount map[string]int
	timeoutMs int
	recDefs   map[string]*recDef
	cur       *Frame
	quantDepth int
	ghostAsserts int
	aliases      map[string]string // contract name -> renamed local (verifyItem's rebinding search)
	paramVals    []Value
	resultVals   []Value
	modelTerms []string // terms to evaluate on sat (entry-state description)
	modelNames []string
	usedContracts map[string]bool
	usedLemmas    map[string]bool
	loopNotes     []string
	symHeaps      []*symHeapCollector
	curState      *State
	replay        *ReplayInfo
	asserted      map[string]bool
	funcByID      map[string]*FuncV
	partials      []*partialHavoc
	qvCache       map[string]bool
	opaque        map[string]bool
	next0         string
	leafTypes     map[string]types.Type
	frameAllowed  map[string][]string
	frameAllowAll map[string]bool
	frameOn       bool
	cellArray     map[string]bool
	framePreserved []types.Type
	epoch         int
	traceDeclared map[string]bool
	pending       sync.WaitGroup
	iterOrd       int
	arrayViews    map[string]*Ptr // whole-value byte views of [N]byte variables, by backing-array ref
	arrayViewAt   map[string]viewOrigin
	iteNames      map[string]string
	sortOf        map[string]string
	writeLog      map[string][]string
	allocLog      map[string]bool
}

func newEnv(w *World, top string, timeoutMs int) (*Env, error) {
	s, err := newSession(timeoutMs)
	if err != nil {
		return nil, err
	}
	e := &Env{w: w, sess: s, top: top, declared: map[string]bool{}, heapSorts: map[string]string{},
		strIDs: map[string]int{}, funcIDs: map[*ssa.Function]int{}, trusted: map[string]bool{}, inlined: map[string]bool{},
		kindCount: map[string]int{}, timeoutMs: timeoutMs, recDefs: map[string]*recDef{}, leafTypes: map[string]types.Type{}, cellArray: map[string]bool{}}
	return e, nil
}

func sanitize(h string) string {
	return strings.NewReplacer("|", "_", "\\", "_", " ", "_", "(", "_", ")", "_", "\"", "_", ";", "_").Replace(h)
}

func (e *Env) fresh(hint, sort string) string {
	e.counter++
	n := q(fmt.Sprintf("%s!%d", sanitize(hint), e.counter))
	e.sess.Cmd("(declare-const " + n + " " + sort + ")")
	if e.sortOf == nil {
		e.sortOf = map[string]string{}
	}
	e.sortOf[n] = sort
	return n
}

// sortOfTerm infers the SMT sort of a term built by this engine ("" if unknown).
func (e *Env) sortOfTerm(t string) string {
	if t == "" {
		return ""
	}
	if t[0] != '(' {
		if (t[0] >= '0' && t[0] <= '9') || t == "0" {
			return sInt
		}
		if t == tTrue || t == tFalse {
			return sBool
		}
		if s, ok := e.sortOf[t]; ok {
			return s
		}
		if strings.HasPrefix(t, "|") {
			name := strings.Trim(t, "|")
			if k := strings.LastIndex(name, "@"); k > 0 {
				if s, ok := e.heapSorts[name[:k]]; ok {
					return s
				}
			}
		}
		return ""
	}
	a := topArgs(t)
	if len(a) == 0 {
		return ""
	}
	switch a[0] {
	case "+", "-", "*", "div", "mod", "tdiv", "tmod", "ix":
		return sInt
	case "select":
		s := e.sortOfTerm(a[1])
		if strings.HasPrefix(s, "(Array Int ") {
			return strings.TrimSuffix(strings.TrimPrefix(s, "(Array Int "), ")")
		}
		return ""
	case "store":
		return e.sortOfTerm(a[1])
	case "ite":
		if s := e.sortOfTerm(a[2]); s != "" {
			return s
		}
		return e.sortOfTerm(a[3])
	}
	return ""
}

func (e *Env) assume(fact string) {
	if fact == tTrue || e.quantDepth > 0 {
		return
	}
	if e.asserted == nil {
		e.asserted = map[string]bool{}
	}
	if e.asserted[fact] {
		return
	}
	e.asserted[fact] = true
	e.sess.Cmd("(assert " + fact + ")")
}

// maybeName introduces a definition for long terms to keep the VC text small.
func (e *Env) maybeName(term, sort string) string {
	if len(term) < 160 || e.quantDepth > 0 {
		return term
	}
	return e.maybeNameForce(term, sort, "d")
}

func (e *Env) maybeNameForce(term, sort, hint string) string {
	if e.quantDepth > 0 {
		return term
	}
	// the same term gets the same name (repeated reads of one location then are one symbol,
	// which keeps queries small and lets quantifier patterns match across them)
	key := "defname:" + sort + ":" + term
	if n, ok := e.iteNames[key]; ok {
		return n
	}
	n := e.fresh(hint, sort)
	e.sess.Cmd("(assert (= " + n + " " + term + "))")
	if e.iteNames == nil {
		e.iteNames = map[string]string{}
	}
	e.iteNames[key] = n
	return n
}

func (e *Env) strID(s string) string {
	if s == "" {
		return "0"
	}
	if id, ok := e.strIDs[s]; ok {
		return fmt.Sprint(id)
	}
	id := len(e.strIDs) + 1
	e.strIDs[s] = id
	return fmt.Sprint(id)
}

// funcID gives a statically known function value (closure with its bindings) a numeral, so
// that it can be stored in the heap and recognised again when loaded.
func (e *Env) funcID(f *FuncV) string {
	if e.funcByID == nil {
		e.funcByID = map[string]*FuncV{}
	}
	for id, g := range e.funcByID {
		if g == f {
			return id
		}
	}
	id := fmt.Sprint(len(e.funcByID) + 1000001)
	e.funcByID[id] = f
	return id
}

func (e *Env) trust(what string) { e.trusted[what] = true }

// oblige records an obligation (pc ∧ ¬goal must be unsat) and discharges it
// asynchronously as a stand-alone solver run on the assumptions made so far.
func (e *Env) oblige(kind, label, pc, goal string) *Obligation {
	if e.dry > 0 {
		return nil
	}
	name := e.top + ":" + kind
	if label != "" {
		name += ":" + label
	}
	ob := &Obligation{Name: name, Func: e.top, Kind: kind, Property: e.prop, Expect: "unsat", Goal: goal}
	e.obs = append(e.obs, ob)
	if goal == tTrue || pc == tFalse {
		ob.Verdict, ob.Solver, ob.OK = "unsat", "trivial", true
		return ob
	}
	prefix := e.sess.Prefix()
	ob.Query = prefix + "(assert " + mkAnd(pc, mkNot(goal)) + ")\n(check-sat)\n"
	ob.PC = pc
	ob.Hinted = hintedScript(prefix, pc, goal)
	e.pending.Add(1)
	go func() {
		defer e.pending.Done()
		e.discharge(ob)
	}()
	return ob
}

func (e *Env) discharge(ob *Obligation) {
	script := ob.Query
	if len(e.modelTerms) > 0 {
		script += "(get-value (" + strings.Join(e.modelTerms, " ") + "))\n"
	}
	solverSlots <- struct{}{}
	first := e.timeoutMs
	if first > 2500 {
		first = 2500
	}
	if e.w.knownObligations[ob.Name] {
		// a recorded known finding: one attempt only (it is expected not to discharge)
		solverSlots <- struct{}{}
		res := runSolver(context.Background(), solvers[3], script, first)
		<-solverSlots
		ob.Verdict, ob.Solver, ob.Time = res.Verdict.String(), res.Solver, res.Time
		ob.OK = ob.Verdict == ob.Expect
		if res.Verdict == Sat {
			ob.Model = res.Model
		}
		return
	}
	res := runSolver(context.Background(), solvers[0], script, first)
	<-solverSlots
	if res.Verdict == Unknown {
		// race: the full script on every solver, and (sound: fewer assumptions) the two
		// relevance-pruned scripts on the z3 variants; an unsat from any of them proves the
		// obligation, a sat counts only from the full script
		type job struct {
			script string
			solver int
			tag    string
			full   bool
		}
		jobs := []job{{script, 0, "", true}, {script, 1, "", true}, {script, 2, "", true}, {script, 3, "", true}}
		for round := 1; round <= 2; round++ {
			if pruned := pruneScript(script, round); pruned != "" && pruned != script {
				tag := fmt.Sprintf("(pruned-%d)", round)
				jobs = append(jobs, job{pruned, 0, tag, false}, job{pruned, 3, tag, false}, job{pruned, 1, tag, false})
			}
		}
		ctx, cancel := context.WithCancel(context.Background())
		type jres struct {
			r SolveResult
			j job
		}
		if ob.Hinted != "" {
			jobs = append(jobs, job{ob.Hinted, 0, "(skolem-hints)", false}, job{ob.Hinted, 3, "(skolem-hints)", false})
		}
		subs := splitScripts(script, ob.PC)
		if ob.Hinted != "" {
			subs = splitScripts(ob.Hinted, ob.PC)
		}
		// a conjunctive goal: one query per conjunct (each with its own skolem hints)
		if cj := conjuncts(ob.Goal); len(cj) > 1 && len(cj) <= 12 {
			k := strings.LastIndex(script, "(assert ")
			if k > 0 {
				var cs []string
				for _, g := range cj {
					if h := hintedScript(script[:k], ob.PC, g); h != "" {
						cs = append(cs, h)
					} else {
						cs = append(cs, script[:k]+"(assert "+mkAnd(ob.PC, mkNot(g))+")\n(check-sat)\n")
					}
				}
				if len(subs) <= 1 || len(cs) >= len(subs) {
					subs = cs
				}
			}
		}
		ch := make(chan jres, len(jobs)+1)
		solverSlots <- struct{}{}
		for _, j := range jobs {
			go func(j job) { ch <- jres{runSolver(ctx, solvers[j.solver], j.script, e.timeoutMs), j} }(j)
		}
		njobs := len(jobs)
		if len(subs) > 1 {
			// case split over the paths merged into this program point: every case must be unsat
			njobs++
			go func() {
				res := make(chan SolveResult, len(subs))
				for _, sub := range subs {
					go func(sub string) {
						c2, cancel2 := context.WithCancel(ctx)
						defer cancel2()
						rc := make(chan SolveResult, 2)
						for _, si := range []int{0, 3} {
							go func(si int) { rc <- runSolver(c2, solvers[si], sub, e.timeoutMs) }(si)
						}
						r := <-rc
						if r.Verdict != Unsat {
							r = <-rc
						}
						res <- r
					}(sub)
				}
				all := SolveResult{Verdict: Unsat, Solver: "z3-5.1.0"}
				for range subs {
					if r := <-res; r.Verdict != Unsat {
						all.Verdict = Unknown
					}
				}
				ch <- jres{all, job{tag: fmt.Sprintf("(split-%d-paths)", len(subs))}}
			}()
		}
		var tried []string
		r2 := SolveResult{Verdict: Unknown}
		t0 := time.Now()
		for i := 0; i < njobs; i++ {
			x := <-ch
			if x.r.Verdict == Unsat || (x.r.Verdict == Sat && x.j.full) {
				r2 = x.r
				r2.Solver += x.j.tag
				break
			}
			if x.j.full {
				tried = append(tried, fmt.Sprintf("%s:%s:%.2fs", x.r.Solver, x.r.Verdict, x.r.Time))
			}
		}
		cancel()
		<-solverSlots
		r2.Time = time.Since(t0).Seconds() + res.Time
		if r2.Verdict == Unknown {
			r2.Solver = res.Solver + ":unknown," + strings.Join(tried, ",")
		}
		res = r2
		if res.Verdict == Unknown {
			// the same query without quantified assumptions: if that is unsat the obligation is
			// proved from fewer assumptions; if sat, its model is a diagnostic hint only
			var sb strings.Builder
			for _, ln := range strings.Split(script, "\n") {
				if strings.HasPrefix(ln, "(assert") && (strings.Contains(ln, "(forall ") || strings.Contains(ln, "(exists ")) && !strings.Contains(ln, "(check-sat)") {
					continue
				}
				sb.WriteString(ln + "\n")
			}
			solverSlots <- struct{}{}
			rr := runSolver(context.Background(), solvers[0], sb.String(), 5000)
			<-solverSlots
			switch rr.Verdict {
			case Unsat:
				rr.Time += res.Time
				res = rr
				res.Solver += "(qf-relaxed)"
			case Sat:
				ob.Note = "undecided; candidate counterexample when quantified assumptions are ignored: " + strings.Join(strings.Fields(rr.Model), " ")
			}
		}
	}
	ob.Verdict = res.Verdict.String()
	ob.Solver = res.Solver
	ob.Time = res.Time
	ob.OK = ob.Verdict == ob.Expect
	if res.Verdict == Sat {
		ob.Model = res.Model
	}
}

// cover records a reachability check: pc must be satisfiable.
func (e *Env) cover(label, pc string) *Obligation {
	if e.dry > 0 {
		return nil
	}
	ob := &Obligation{Name: e.top + ":cover:" + label, Func: e.top, Kind: "cover", Property: e.prop, Expect: "sat", Goal: pc}
	e.obs = append(e.obs, ob)
	ob.Query = e.sess.Prefix() + "(assert " + pc + ")\n(check-sat)\n"
	e.pending.Add(1)
	go func() {
		defer e.pending.Done()
		solverSlots <- struct{}{}
		res := runSolver(context.Background(), solvers[0], ob.Query, 3000)
		<-solverSlots
		if res.Verdict == Unknown {
			// reachability with quantified assumptions present is usually undecidable for the
			// solver; fall back to the quantifier-free part (a weaker but still useful vacuity check)
			var sb strings.Builder
			for _, ln := range strings.Split(ob.Query, "\n") {
				if strings.HasPrefix(ln, "(assert") && (strings.Contains(ln, "(forall ") || strings.Contains(ln, "(exists ")) {
					continue
				}
				sb.WriteString(ln + "\n")
			}
			solverSlots <- struct{}{}
			rr := runSolver(context.Background(), solvers[0], sb.String(), 10000)
			<-solverSlots
			rr.Time += res.Time
			if rr.Verdict == Sat {
				rr.Solver += "(quantified assumptions ignored)"
			}
			if rr.Verdict == Unsat {
				rr.Solver += "(quantifier-free part)"
			}
			res = rr
		}
		ob.Verdict = res.Verdict.String()
		ob.Solver = res.Solver
		ob.Time = res.Time
		ob.OK = res.Verdict != Unsat
	}()
	return ob
}

func (e *Env) nextOrdinal(kind string) int {
	e.kindCount[kind]++
	return e.kindCount[kind] - 1
}

func sortedKeys(m map[string]bool) []string {
	var out []string
	for k := range m {
		out = append(out, k)
	}
	sort.Strings(out)
	return out
}

var _ = types.Typ

// quickValid asks the solver (synchronously, short timeout) whether a fact follows from
// the assumptions made so far. Used only to simplify the model; "don't know" is false.
func (e *Env) quickValid(fact string) bool {
	if fact == tTrue {
		return true
	}
	key := "qv:" + fact
	if v, ok := e.qvCache[key]; ok {
		return v
	}
	// only the quantifier-free assumptions are used: fast and stable
	var sb strings.Builder
	for _, ln := range strings.Split(e.sess.Prefix(), "\n") {
		if strings.HasPrefix(ln, "(assert") && (strings.Contains(ln, "(forall ") || strings.Contains(ln, "(exists ")) {
			continue
		}
		sb.WriteString(ln + "\n")
	}
	script := sb.String() + "(assert " + mkNot(fact) + ")\n(check-sat)\n"
	solverSlots <- struct{}{}
	r := runSolver(context.Background(), solvers[0], script, 3000)
	<-solverSlots
	if e.qvCache == nil {
		e.qvCache = map[string]bool{}
	}
	e.qvCache[key] = r.Verdict == Unsat
	return r.Verdict == Unsat
}

var symRe = regexp.MustCompile(`\|[^|]*\|`)

// pruneScript keeps declarations, quantifier-free assertions and those quantified
// assertions that are connected to the final (goal) assertion through shared symbols
// within the given number of rounds.
func pruneScript(script string, rounds int) string {
	lines := strings.Split(script, "\n")
	goalIdx := -1
	for i := len(lines) - 1; i >= 0; i-- {
		if strings.HasPrefix(lines[i], "(assert") {
			goalIdx = i
			break
		}
	}
	if goalIdx < 0 {
		return ""
	}
	syms := func(l string) []string { return symRe.FindAllString(l, -1) }
	rel := map[string]bool{}
	for _, s := range syms(lines[goalIdx]) {
		rel[s] = true
	}
	isQ := func(l string) bool {
		return strings.HasPrefix(l, "(assert") && (strings.Contains(l, "(forall ") || strings.Contains(l, "(exists "))
	}
	// close over quantifier-free definitions  (assert (= |d!k| ...))
	closeDefs := func() {
		changed := true
		for changed {
			changed = false
			for i, l := range lines {
				if i == goalIdx || !strings.HasPrefix(l, "(assert (= |") || isQ(l) {
					continue
				}
				ss := syms(l)
				if len(ss) == 0 || !rel[ss[0]] {
					continue
				}
				for _, s := range ss[1:] {
					if !rel[s] {
						rel[s] = true
						changed = true
					}
				}
			}
		}
	}
	closeDefs()
	keepQ := map[int]bool{}
	for r := 0; r < rounds; r++ {
		for i, l := range lines {
			if !isQ(l) || keepQ[i] || i == goalIdx {
				continue
			}
			for _, s := range syms(l) {
				if rel[s] && !strings.HasPrefix(s, "|$") {
					keepQ[i] = true
					break
				}
			}
		}
		for i := range keepQ {
			for _, s := range syms(lines[i]) {
				if !strings.HasPrefix(s, "|$") {
					rel[s] = true
				}
			}
		}
		closeDefs()
	}
	dropped := 0
	var sb strings.Builder
	for i, l := range lines {
		if isQ(l) && i != goalIdx && !keepQ[i] {
			dropped++
			continue
		}
		sb.WriteString(l + "\n")
	}
	if dropped == 0 {
		return ""
	}
	return sb.String()
}

// splitScripts splits an obligation whose path condition is a (named) disjunction of merged
// paths into one script per path: the conjunction of the cases is equivalent to the original.
func splitScripts(script, pc string) []string {
	defs := map[string]string{}
	lines := strings.Split(script, "\n")
	for _, ln := range lines {
		if strings.HasPrefix(ln, "(assert (= |d!") {
			if args := topArgs(ln[len("(assert ") : len(ln)-1]); len(args) == 3 && strings.HasPrefix(args[2], "(or ") {
				defs[args[1]] = args[2]
			}
		}
	}
	var expand func(t string, depth int) []string
	expand = func(t string, depth int) []string {
		if d, ok := defs[t]; ok {
			t = d
		}
		if !strings.HasPrefix(t, "(or ") || depth > 2 {
			return []string{t}
		}
		var out []string
		for _, a := range topArgs(t)[1:] {
			out = append(out, expand(a, depth+1)...)
		}
		return out
	}
	// the path condition may be a conjunction whose first conjunct is the merged name
	cases := expand(pc, 0)
	if len(cases) < 2 || len(cases) > 12 {
		return nil
	}
	// insert the case assumption before the goal (last assert)
	gi := -1
	for i := len(lines) - 1; i >= 0; i-- {
		if strings.HasPrefix(lines[i], "(assert ") {
			gi = i
			break
		}
	}
	if gi < 0 {
		return nil
	}
	var out []string
	for _, c := range cases {
		var sb strings.Builder
		sb.WriteString(strings.Join(lines[:gi], "\n"))
		sb.WriteString("\n(assert " + c + ")\n")
		sb.WriteString(strings.Join(lines[gi:], "\n"))
		out = append(out, sb.String())
	}
	return out
}

// hintedScript builds an equisatisfiable variant of an obligation whose goal is a universal
// formula: the bound variables become fresh constants, and every assumption quantified over
// exactly the same binder list (typically the same invariant clause, assumed at the loop head)
// is additionally instantiated at those constants. Instances of assumptions are consequences
// of them, so an unsat answer for the variant is an unsat answer for the obligation.
func hintedScript(prefix, pc, goal string) string {
	if !strings.Contains(goal, "(forall (") {
		return ""
	}
	// skolemise the universal quantifiers in positive positions of the goal (under and, the
	// consequent of =>, annotations); each gets its own constants
	type skq struct {
		binders string
		repl    *strings.Replacer
	}
	var sks []skq
	var decls strings.Builder
	nsk := 0
	var sk func(t string) string
	sk = func(t string) string {
		if !strings.HasPrefix(t, "(") || !strings.Contains(t, "(forall (") || nsk > 6 {
			return t
		}
		a := topArgs(t)
		if len(a) == 0 {
			return t
		}
		switch a[0] {
		case "and":
			out := make([]string, 0, len(a))
			for _, x := range a[1:] {
				out = append(out, sk(x))
			}
			return sx("and", out...)
		case "=>":
			if len(a) == 3 {
				return sx("=>", a[1], sk(a[2]))
			}
		case "=":
			if len(a) == 3 && a[1] == "true" {
				return sk(a[2])
			}
		case "!":
			return sk(a[1])
		case "forall":
			if len(a) != 3 {
				return t
			}
			var repl []string
			for _, bd := range topArgs("(x " + a[1][1:len(a[1])-1] + ")")[1:] {
				ba := topArgs(bd)
				if len(ba) != 2 {
					return t
				}
				c := fmt.Sprintf("|sk%d%s|", nsk, strings.Trim(ba[0], "|"))
				decls.WriteString("(declare-const " + c + " " + ba[1] + ")\n")
				repl = append(repl, ba[0], c)
			}
			nsk++
			r := strings.NewReplacer(repl...)
			sks = append(sks, skq{a[1], r})
			body := a[2]
			if strings.HasPrefix(body, "(! ") {
				body = topArgs(body)[1]
			}
			return sk(r.Replace(body))
		}
		return t
	}
	g2 := sk(goal)
	if len(sks) == 0 {
		return ""
	}
	var sb strings.Builder
	sb.WriteString(prefix)
	sb.WriteString(decls.String())
	hints := 0
	lines := strings.Split(prefix, "\n")
	for _, q := range sks {
		key := "(forall " + q.binders + " "
		for _, ln := range lines {
			if !strings.HasPrefix(ln, "(assert ") || !strings.Contains(ln, key) {
				continue
			}
			rest := ln
			out := ""
			changed := false
			for {
				k := strings.Index(rest, key)
				if k < 0 {
					break
				}
				depth, j := 0, k
				for ; j < len(rest); j++ {
					if rest[j] == '(' {
						depth++
					} else if rest[j] == ')' {
						depth--
						if depth == 0 {
							break
						}
					}
				}
				if j >= len(rest) {
					break
				}
				fb := topArgs(rest[k : j+1])
				if len(fb) != 3 {
					break
				}
				bd := fb[2]
				if strings.HasPrefix(bd, "(! ") {
					bd = topArgs(bd)[1]
				}
				out += rest[:k] + q.repl.Replace(bd)
				rest = rest[j+1:]
				changed = true
			}
			if changed && hints < 80 {
				sb.WriteString(out + rest + "\n")
				hints++
			}
		}
	}
	sb.WriteString("(assert " + mkAnd(pc, mkNot(g2)) + ")\n(check-sat)\n")
	return sb.String()
}

// hoistItes replaces conditional sub-terms of a pattern (z3 rejects `if` inside patterns and
// then ignores the pattern) by constants defined equal to them.
func (e *Env) hoistItes(p string) string {
	if !strings.Contains(p, "(ite ") {
		return p
	}
	if e.iteNames == nil {
		e.iteNames = map[string]string{}
	}
	for _, it := range iteSubterms(p) {
		n, ok := e.iteNames[it]
		if !ok {
			srt := e.sortOfTerm(it)
			if srt == "" {
				continue
			}
			n = e.fresh("pi", srt)
			e.sess.Cmd("(assert (= " + n + " " + it + "))")
			e.iteNames[it] = n
		}
		p = strings.ReplaceAll(p, it, n)
	}
	return p
}

// Discovery runs (dry runs of loop bodies and iterator closures) only determine which heap
// arrays a body writes; the assumptions and definitions they add to the session are useless
// afterwards and make every later query larger. snapshot/rollback discard them.
type sessSnap struct {
	log                 string
	declared, asserted  map[string]bool
	iteNames            map[string]string
	recDefs             map[string]*recDef
	ghostAsserts int
}

func (e *Env) snapshot() *sessSnap {
	cp := func(m map[string]bool) map[string]bool {
		n := make(map[string]bool, len(m))
		for k, v := range m {
			n[k] = v
		}
		return n
	}
	in := map[string]string{}
	for k, v := range e.iteNames {
		in[k] = v
	}
	// recursive spec functions defined during a discovery run are forgotten with it (their
	// declarations leave the session log)
	rds := make(map[string]*recDef, len(e.recDefs))
	for k, v := range e.recDefs {
		c := *v
		c.heapNames = append([]string(nil), v.heapNames...)
		hs := make(map[string]string, len(v.heapSort))
		for a, b := range v.heapSort {
			hs[a] = b
		}
		c.heapSort = hs
		rds[k] = &c
	}
	return &sessSnap{log: e.sess.log.String(), declared: cp(e.declared), asserted: cp(e.asserted), iteNames: in, recDefs: rds, ghostAsserts: e.ghostAsserts}
}

func (e *Env) rollback(s *sessSnap) {
	e.ghostAsserts = s.ghostAsserts
	e.sess.log.Reset()
	e.sess.log.WriteString(s.log)
	e.declared, e.asserted, e.iteNames = s.declared, s.asserted, s.iteNames
	e.recDefs = s.recDefs
}

// conjuncts flattens a goal of the form (and a b ...) / (= true (and ...)).
func conjuncts(g string) []string {
	if strings.HasPrefix(g, "(= true ") {
		if a := topArgs(g); len(a) == 3 {
			g = a[2]
		}
	}
	if strings.HasPrefix(g, "(=> ") {
		// (=> a (and b c)) splits into (=> a b), (=> a c)
		if a := topArgs(g); len(a) == 3 {
			inner := conjuncts(a[2])
			if len(inner) > 1 {
				var out []string
				for _, x := range inner {
					out = append(out, sx("=>", a[1], x))
				}
				return out
			}
		}
		return []string{g}
	}
	if !strings.HasPrefix(g, "(and ") {
		return []string{g}
	}
	var out []string
	for _, a := range topArgs(g)[1:] {
		out = append(out, conjuncts(a)...)
	}
	return out
}


// viewOrigin: a byte slice cut from a [N]byte variable (modelled as an atom) at offset lo.
type viewOrigin struct {
	ptr *Ptr
	lo  string
	n   int
}
