package cert_test

import (
	"testing"

	"github.com/relab/hotstuff"
	"github.com/relab/hotstuff/internal/testutil"
	"github.com/relab/hotstuff/security/crypto"
)

// Witness for the defect fixed by "fix: VerifyTimeoutCert rejects a certificate without
// signature": a TimeoutCert with a nil signature (what decoding a wire message with an absent
// signature produces) made VerifyTimeoutCert panic (obligation
// security/cert.(*Authority).VerifyTimeoutCert:panic:nil).
func TestGovcFindingTimeoutCertNilSignature(t *testing.T) {
	set := testutil.NewEssentialsSet(t, 4, crypto.NameECDSA)
	defer func() {
		if r := recover(); r != nil {
			t.Fatalf("VerifyTimeoutCert panicked on a nil signature: %v", r)
		}
	}()
	if err := set.Signers()[0].VerifyTimeoutCert(hotstuff.NewTimeoutCert(nil, 5)); err == nil {
		t.Fatalf("a timeout certificate without signature verified")
	}
}
