package main

// mode bv64fp: 64-bit integers are bit-vectors and float64 is SMT FloatingPoint 11 53
// with the exact operations Go performs. Used for hotstuff.QuorumSize (DESIGN 2.3, C20).

import (
	"fmt"
	"go/constant"
	"go/token"
	"go/types"
	"math/big"
	"strings"

	"golang.org/x/tools/go/ssa"
)

const (
	sBV64 = "(_ BitVec 64)"
	sF64  = "(_ FloatingPoint 11 53)"
)

func bvModeInt(e *Env, t types.Type) bool {
	return e.bvfp && (isInteger(t) || isFloat(t))
}

func (e *Env) bvSort(t types.Type) string {
	if isFloat(t) {
		if basicOf(t).Kind() != types.Float64 && basicOf(t).Kind() != types.UntypedFloat {
			unsupp("mode bv64fp: only float64 is modelled, got %v", t)
		}
		return sF64
	}
	if bitWidth(t) != 64 {
		unsupp("mode bv64fp: only 64-bit integers are modelled, got %v", t)
	}
	return sBV64
}

func bv64Lit(v *big.Int) string {
	m := new(big.Int).Lsh(big.NewInt(1), 64)
	x := new(big.Int).Mod(v, m)
	return fmt.Sprintf("(_ bv%s 64)", x.String())
}

func (e *Env) bvConst(c *ssa.Const) string {
	t := c.Type()
	if isFloat(t) {
		f := constant.ToFloat(c.Value)
		r, _ := new(big.Rat).SetString(f.ExactString())
		if r == nil {
			unsupp("float constant %v", c.Value)
		}
		if r.IsInt() {
			return fmt.Sprintf("((_ to_fp 11 53) RNE %s.0)", r.Num().String())
		}
		return fmt.Sprintf("((_ to_fp 11 53) RNE (/ %s.0 %s.0))", r.Num().String(), r.Denom().String())
	}
	i := constant.ToInt(c.Value)
	v, _ := new(big.Int).SetString(i.ExactString(), 10)
	return bv64Lit(v)
}

func (e *Env) bvBinop(x *ssa.BinOp, a, b *Sc) Value {
	t := x.X.Type()
	if isFloat(t) {
		switch x.Op {
		case token.ADD:
			return &Sc{T: sx("fp.add", "RNE", a.T, b.T), Sort: sF64, Typ: x.Type()}
		case token.SUB:
			return &Sc{T: sx("fp.sub", "RNE", a.T, b.T), Sort: sF64, Typ: x.Type()}
		case token.MUL:
			return &Sc{T: sx("fp.mul", "RNE", a.T, b.T), Sort: sF64, Typ: x.Type()}
		case token.QUO:
			return &Sc{T: sx("fp.div", "RNE", a.T, b.T), Sort: sF64, Typ: x.Type()}
		case token.LSS:
			return boolV(sx("fp.lt", a.T, b.T))
		case token.LEQ:
			return boolV(sx("fp.leq", a.T, b.T))
		case token.GTR:
			return boolV(sx("fp.gt", a.T, b.T))
		case token.GEQ:
			return boolV(sx("fp.geq", a.T, b.T))
		case token.EQL:
			return boolV(sx("fp.eq", a.T, b.T))
		case token.NEQ:
			return boolV(mkNot(sx("fp.eq", a.T, b.T)))
		}
		unsupp("float operator %v", x.Op)
	}
	uns := isUnsigned(t)
	pick := func(s, u string) string {
		if uns {
			return u
		}
		return s
	}
	switch x.Op {
	case token.ADD:
		return &Sc{T: sx("bvadd", a.T, b.T), Sort: sBV64, Typ: x.Type()}
	case token.SUB:
		return &Sc{T: sx("bvsub", a.T, b.T), Sort: sBV64, Typ: x.Type()}
	case token.MUL:
		return &Sc{T: sx("bvmul", a.T, b.T), Sort: sBV64, Typ: x.Type()}
	case token.QUO:
		e.panicCheck(e.cur, "div0", e.curState, mkNot(mkEq(b.T, bv64Lit(big.NewInt(0)))))
		return &Sc{T: sx(pick("bvsdiv", "bvudiv"), a.T, b.T), Sort: sBV64, Typ: x.Type()}
	case token.REM:
		e.panicCheck(e.cur, "div0", e.curState, mkNot(mkEq(b.T, bv64Lit(big.NewInt(0)))))
		return &Sc{T: sx(pick("bvsrem", "bvurem"), a.T, b.T), Sort: sBV64, Typ: x.Type()}
	case token.EQL:
		return boolV(mkEq(a.T, b.T))
	case token.NEQ:
		return boolV(mkNot(mkEq(a.T, b.T)))
	case token.LSS:
		return boolV(sx(pick("bvslt", "bvult"), a.T, b.T))
	case token.LEQ:
		return boolV(sx(pick("bvsle", "bvule"), a.T, b.T))
	case token.GTR:
		return boolV(sx(pick("bvsgt", "bvugt"), a.T, b.T))
	case token.GEQ:
		return boolV(sx(pick("bvsge", "bvuge"), a.T, b.T))
	}
	unsupp("mode bv64fp: integer operator %v", x.Op)
	return nil
}

func (e *Env) bvConvert(v *Sc, from, to types.Type) Value {
	switch {
	case isInteger(from) && isFloat(to):
		op := "(_ to_fp 11 53)"
		if isUnsigned(from) {
			op = "(_ to_fp_unsigned 11 53)"
		}
		return &Sc{T: sx(op, "RNE", v.T), Sort: sF64, Typ: to}
	case isFloat(from) && isInteger(to):
		// Go: the conversion truncates towards zero; the result is implementation-defined when
		// the value does not fit — made an obligation.
		lo := "((_ to_fp 11 53) RNE (- 9223372036854775808.0))"
		hi := "((_ to_fp 11 53) RNE 9223372036854775808.0)"
		e.panicCheck(e.cur, "f2i-range", e.curState, mkAnd(sx("fp.leq", lo, v.T), sx("fp.lt", v.T, hi), mkNot(sx("fp.isNaN", v.T))))
		return &Sc{T: sx("(_ fp.to_sbv 64)", "RTZ", v.T), Sort: sBV64, Typ: to}
	case isInteger(from) && isInteger(to):
		if bitWidth(from) == 64 && bitWidth(to) == 64 {
			return &Sc{T: v.T, Sort: sBV64, Typ: to}
		}
	case isFloat(from) && isFloat(to):
		return &Sc{T: v.T, Sort: sF64, Typ: to}
	}
	unsupp("mode bv64fp: conversion %v -> %v", from, to)
	return nil
}

// bvSpecBinop: spec arithmetic in mode bv64fp is 64-bit signed bit-vector arithmetic.
// Contracts in this mode must keep their expressions within the 64-bit range (the
// preconditions bound n by 2^32, so 2*q-n etc. cannot overflow).
func (e *Env) bvSpecBinop(op string, a, b *Sc) Value {
	lit := func(s *Sc) string {
		if s.Sort == sBV64 {
			return s.T
		}
		t := strings.TrimSpace(s.T)
		if strings.HasPrefix(t, "(- ") {
			v, _ := new(big.Int).SetString(strings.TrimSuffix(t[3:], ")"), 10)
			return bv64Lit(new(big.Int).Neg(v))
		}
		v, ok := new(big.Int).SetString(t, 10)
		if !ok {
			specFail("mode bv64fp: non-literal mathematical integer %s in spec", s.T)
		}
		return bv64Lit(v)
	}
	x, y := lit(a), lit(b)
	typ := a.Typ
	switch op {
	case "+":
		return &Sc{T: sx("bvadd", x, y), Sort: sBV64, Typ: typ}
	case "-":
		return &Sc{T: sx("bvsub", x, y), Sort: sBV64, Typ: typ}
	case "*":
		return &Sc{T: sx("bvmul", x, y), Sort: sBV64, Typ: typ}
	case "/":
		return &Sc{T: sx("bvsdiv", x, y), Sort: sBV64, Typ: typ}
	case "%":
		return &Sc{T: sx("bvsrem", x, y), Sort: sBV64, Typ: typ}
	case "<":
		return boolV(sx("bvslt", x, y))
	case "<=":
		return boolV(sx("bvsle", x, y))
	case ">":
		return boolV(sx("bvsgt", x, y))
	case ">=":
		return boolV(sx("bvsge", x, y))
	}
	specFail("mode bv64fp: operator %s", op)
	return nil
}
