#!/usr/bin/env python3
# Generates /verif/MANIFEST.json from the table below (edit the table, re-run).
import json

CLAIMED = {
 # id: (level text, level note, technique, design ref)
 "C16": ("Unbounded proof, for every view and every n in 1..2^32-1, that ChooseRoundRobin returns an id in 1..n equal to view mod n + 1 (exact Go wrap-around semantics), plus machine-checked lemmas that every replica gets exactly one turn in any n consecutive views (constructive existence + uniqueness). Obligations are generated from the go/ssa form of the real function on every run and discharged by z3/cvc5.",
         "Trusted: go/ssa, the SMT solvers, the VC generator (tested by must-fail mutants). Carousel/reputation clauses are not decided (see evidence clauses_not_decided).",
         "contract-based deductive verification: WP over go/ssa + SMT (govc)", "DESIGN.md 3 C16"),
 "C20": ("Unbounded proof with exact IEEE-754 binary64 semantics that QuorumSize(n) equals the integer spec Q(n) for every n in 0..2^32 (33+1 case split, each case discharged by z3/cvc5), NumFaulty(n) == (n-1)/3, and lemmas over mathematical integers that Q(n) satisfies intersection, availability and minimality for every n >= 1. RuntimeConfig.QuorumSize is proved to return Q(len(replicas)).",
         "Trusted: go/ssa, SMT solvers' FloatingPoint theory, math.Ceil modelled as fp.roundToIntegral RTP, float64->int conversion as fp.to_sbv RTZ (in range, which is an obligation).",
         "contract-based deductive verification: WP over go/ssa + SMT (govc), bit-vector/floating-point mode", "DESIGN.md 3 C20"),
}

CLAIMED["C14"] = ("Unbounded proof that the event queue (ring buffer) refines an abstract FIFO sequence for every capacity and every head/tail position: push appends or, when full, drops exactly the oldest entry and reports exactly that entry; pop removes the front; len is the abstract length; frame conditions included. Obligations generated from go/ssa of the real functions.",
  "Trusted: sync.Mutex atomicity (Lock/Unlock are no-ops in the sequential VC), go/ssa, SMT solvers. Dispatch order / deferred events / goroutine interleavings: see clauses_not_decided in the evidence.",
  "contract-based deductive verification: WP over go/ssa + SMT (govc)", "DESIGN.md 3 C14")
CLAIMED["C19"] = ("Unbounded proof (bytes as 8-bit vectors, ids up to 2^32-1, any length) that crypto.Bitfield behaves as a set: Add updates membership pointwise for all ids and keeps len == popcount of the data (recursive spec function with machine-checked induction lemmas), Contains/Len/index/id agree with the abstract set.",
  "Trusted: go/ssa, SMT solvers, slice capacity <= 2^48 (gc runtime maxAlloc). Iteration order and Multi signer lists: see clauses_not_decided in the evidence.",
  "contract-based deductive verification: WP over go/ssa + SMT (govc), byte bit-vector mode", "DESIGN.md 3 C19")

CLAIMED["C04"] = ("Unbounded proof that each rule set's CommitRule / VoteRule / lock update / ChainLength equal spec functions transcribed from the published rules (chained HotStuff three-chain commit with lock on the two-chain head and safety-or-liveness vote; Fast-HotStuff two-chain commit with plain and aggregate-QC vote conditions; simplified HotStuff lock and view-gap commit), for every block forest (arbitrary heap), every lock state, missing blocks included; the ancestry query used by the vote rules is proved exact (C13).",
  "Trusted: the network oracle for block fetching is a fixed function of the hash during a call (avail/fetched), SHA-256 collision resistance (hash determines view and parent) and 'views grow along parent links' as preconditions of the vote rules (as in the property statement); logging calls have no effect; go/ssa; SMT solvers.",
  "contract-based deductive verification: WP over go/ssa + SMT (govc)", "DESIGN.md 3 C04")
CLAIMED["C13"] = ("Unbounded proof over arbitrary heaps that the block store is content-addressed (every entry keyed by the hash the block carries: object invariant preserved by Store/Get/Extends; Get/LocalGet return a block with the requested hash, also on the fetch path given the Sender.RequestBlock contract), Store is idempotent, and Extends returns exactly the recursive ancestry predicate anc (loop invariant + induction lemma anc_frame, well-foundedness of anc checked).",
  "Trusted: Sender.RequestBlock interface contract (ok => block.hash == hash; its gorums implementation is C12's RequestBlockQF), availability fixed during a call, EventLoop.TimeoutContext (trusted contract), mutex atomicity (interference between the two critical sections of Get is not modelled). PruneToHeight: see clauses_not_decided.",
  "contract-based deductive verification: WP over go/ssa + SMT (govc)", "DESIGN.md 3 C13")
CLAIMED["C17"] = ("Unbounded proof (every n up to 2^32, every branch factor 2..2^30, every assignment of distinct ids) that Parent is position (p-1)/bf, ChildrenOf is exactly positions p*bf+1..min(p*bf+bf,n-1), Root/IsRoot identify position 0, plus the lemma that these are inverse relations (p has parent i iff p is in i's child range), which gives exactly one root, one parent per non-root and membership in exactly one child list; SubTree never writes the shared position table (frame).",
  "Trusted: slices.Index extern contract, go/ssa, SMT solvers (nonlinear integer arithmetic). SubTree == descendant set, heights: see clauses_not_decided.",
  "contract-based deductive verification: WP over go/ssa + SMT (govc)", "DESIGN.md 3 C17")

CLAIMED["C08"] = ("Unbounded proof for the timeout collector (any number of stored timeouts, views, senders): add reports a quorum exactly when the timeouts stored for that view plus the new one reach the quorum of the configured membership and the new one is not a duplicate (recursive count spec, loop invariant, induction lemma); the returned list contains only timeouts of that view, from pairwise distinct senders, at least a quorum of them; deleteOldViews keeps only views >= the current one. The defect found by these obligations (quorum counted over all views) is fixed in /repo.",
  "Trusted: extern contracts for slices.ContainsFunc / DeleteFunc (filter semantics via index maps), RuntimeConfig.QuorumSize contract (C20), go/ssa, SMT solvers. Not decided: see clauses_not_decided (certificate construction and verification at other replicas, second advance).",
  "contract-based deductive verification: WP over go/ssa + SMT (govc)", "DESIGN.md 3 C08")

CLAIMED["C15"] = ("Unbounded proof of the safety clauses of the command cache for every cache content, batch size >= 1 and proposed-mark map: tryExtractBatch returns either nil with the cache untouched or a full batch that holds exactly the fresh (not marked proposed) commands of the consumed cache prefix in arrival order (position = number of fresh commands before it, via a recursive count spec with induction lemmas), consumes exactly that prefix, and returns nothing at or below a proposed mark; Add appends exactly non-duplicate commands; Proposed only moves marks forward and marks every command of the batch.",
  "Trusted: mutex atomicity; generated protobuf getters are inlined from the repository's .pb.go. Known finding: in-cache duplicates (see known-findings.txt). Not decided: blocking/wake-up behaviour of Get (liveness).",
  "contract-based deductive verification: WP over go/ssa + SMT (govc)", "DESIGN.md 3 C15")

CLAIMED["C18"] = ("Unbounded proof for the scenario generator's odometer (any number of partition scenarios L >= 1, any number of views): NextScenario returns io.EOF exactly when exhausted and otherwise yields a scenario of the configured length whose view i is leadersPartitions[(indices[i]+offsets[i]) mod L], decrements the announced remaining count by one, keeps all digits in range, and becomes exhausted right after the all-(L-1) state. The defect these obligations found (last scenario discarded, then index panic) is fixed in /repo.",
  "Partial claim: only the enumeration/count clause is decided. Trusted: go/ssa, SMT solvers, io.EOF != nil (axiom). Not decided: see clauses_not_decided (checkCommits verdict, scenario well-formedness from genPartitionScenarios, JSON round trip, Shuffle).",
  "contract-based deductive verification: WP over go/ssa + SMT (govc)", "DESIGN.md 3 C18")

CLAIMED["C02"] = ("Unbounded proof of the soundness direction for every certificate shape and cluster size: VerifyQuorumCert / VerifyTimeoutCert / VerifyAggregateQC / VerifyPartialCert / VerifyAnyQC return nil only if the participant set has at least the quorum of the configured membership (Q(n) of C20), every participant's signature is valid over exactly the certified content (the stored block named by the hash, which carries the view the QC claims; the timed-out view; the signer's own timeout message with the QC it attested), and the high QC reported for an aggregate certificate is itself a valid QC; ECDSA/EdDSA verification rejects signer lists with a repeated signer (so size counts distinct replicas). Three genuine defects found by these obligations are fixed in /repo (relabelled QC view, repeated signer, nil timeout-certificate signature).",
  "Trusted: signature primitives abstracted as an uninterpreted predicate sigvalid behind the crypto.Base interface contract (Verify/BatchVerify soundness), the per-signature checks of ECDSA/EdDSA run in goroutines and are not modelled; bytes-to-sign functions (Block/View/TimeoutMsg.ToBytes) trusted as functions of the object; Multi refinement axioms; BLS not under contract. Not decided: completeness (honestly assembled certificates verify), 'highest-view' among the attested QCs, membership of signers in the configuration. Known finding: VerifyAggregateQC nil signature panic.",
  "contract-based deductive verification: WP over go/ssa + SMT (govc)", "DESIGN.md 3 C02")

CLAIMED["C03"] = ("Unbounded proof of the voting discipline of a replica: Voter.Verify accepts a proposal only if its view is above the last voted/stopped view, its certificate is a valid QC (C02), it comes from the leader of its view, and its block directly extends the certified block (parent == certified hash, view above the certificate's); Vote signs only above the mark and raises the mark to the block's view; StopVoting only raises the mark; OnValidPropose and Proposer.Propose vote at most for the proposal's view; a program-wide census (SSA scan of the whole module) shows that partial certificates are created only in Voter.Vote, that Vote is called only from OnValidPropose and Propose, and that the mark is written only by Vote, StopVoting and the constructor. Hence at most one vote per view, in strictly increasing view order, never at or below a stopped view. One genuine defect found by these obligations is fixed in /repo (missing parent/certificate link check).",
  "Trusted: rule sets, leader rotation, aggregators, disseminators, committer and network are unknown code behind interface contracts that may change anything except the fields of the listed protocol objects (preserve set @std) and keep block stores intact; event-loop serialisation of handlers; NewPartialCert, TryCommit, CreateProposal trusted contracts (frame only). Not decided: that a timeout message leaves the replica only after StopVoting (OnLocalTimeout not yet under contract).",
  "contract-based deductive verification: WP over go/ssa + SMT (govc), SSA census", "DESIGN.md 3 C03")
CLAIMED["C07"] = ("Unbounded proof that the view state only moves forward and only on evidence: UpdateHighQC replaces the high QC only by a verified QC of a higher view (monotone, using the view binding of verified QCs), UpdateHighTC and UpdateCommittedBlock are monotone, NextView steps by one; both VerifySyncInfo rules return a view only together with a certificate for exactly that view that the authority accepted (C02 states what acceptance implies); advanceView changes the view by at most one step, only if VerifySyncInfo accepted evidence for a view at least the current one, never lowers the high QC view, and signals the change with a ViewChangeEvent for the new view as its first emitted event (ghost trace), and emits nothing when the view does not change. Two genuine defects found here are fixed in /repo (forged genesis QC advanced the view; see also C02 view binding).",
  "Trusted: interface contracts for unknown code (timeout rules behind the interface, leader rotation, view duration, proposer frame, network); EventLoop.AddEvent trusted contract (emits the event; UnsafeRunInAddEvent handlers do not touch protocol state); SHA-256 collision resistance (hash determines view) for UpdateHighQC; acceptance history facts (qcAccepted etc.) are names for 'Verify returned nil', their meaning is C02's. Not decided: committed view monotone through commitInner (needs the committer under contract), OnRemoteTimeout/OnNewView handler wrappers.",
  "contract-based deductive verification: WP over go/ssa + SMT (govc), ghost event trace", "DESIGN.md 3 C07")

CLAIMED["C10"] = ("Unbounded no-panic proof (every implicit panic site: nil dereference, index, slice bounds, type assertion, nil map, division, make) for the decoding layer and certificate verification under the weakest input assumptions: all nine *FromProto conversions of hotstuffpb for every message the protobuf decoder can produce (any field absent, any byte-string length, any oneof case or none), BitfieldFromBytes for every byte string, and Authority.VerifyQuorumCert / VerifyTimeoutCert / VerifyPartialCert / VerifyAnyQC / findHighestValidQC / VerifyAggregateQC for every certificate value including nil signatures. Four genuine crash defects found by these obligations are fixed in /repo (nil timeout-certificate signature, vote without signature, proposal or fetched block without block body); one is recorded as a known finding (VerifyAggregateQC nil signature, pinned by the repository's own test).",
  "Trusted: the protobuf decoder's output shape (oneof wrappers and repeated message elements are non-nil, byte fields below 2^28), generated getters are inlined from the repository's .pb.go, kilic/bls12-381 point decoding is total, NewBlock/SetTimestamp bytes-to-sign via trusted contracts. Not decided: see clauses_not_decided (server and protocol handlers, the state-unchanged clause).",
  "contract-based deductive verification: WP over go/ssa + SMT (govc), zero-annotation panic obligations", "DESIGN.md 3 C10")

CLAIMED["C06"] = ("Unbounded proof of the per-replica clauses over all histories of one replica (ghost traces): ClientIO.Exec keeps the history invariant iowf for every batch and every prior history: a (client, sequence number) is recorded as executed only with a sequence number strictly above everything executed for that client before (so never twice, also across blocks), the application state (hash.Write) is touched exactly once per executed command, and a success outcome is delivered only directly after that command was executed and applied; Abort never reports success and executes nothing; completeCommand answers a waiting client exactly once and removes it. On the commit path, commitInner emits CommitEvent/ExecuteEvent/latency triples for exactly the uncommitted ancestors in ancestor-first order (each block's parent hash is the previous block's hash, views strictly increase, last is the committed block, nothing on error); commit aborts only batches of blocks that PruneToHeight reported, which are above the old prune height and not on the chain of the newly committed block, after all commit triples. One genuine defect found here is fixed in /repo (PruneToHeight aborted executed blocks under equivocation).",
  "Trusted: the event loop delivers ExecuteEvent/AbortEvent in the order added (C14 covers the queue only), hash.Hash digest state not modelled (only that Write is called once per executed command), channel sends modelled as ghost trace records, mutex atomicity, Committer.TryCommit not verified (its callees are), views grow along parent links and SHA-256 collision resistance as stated preconditions. Not decided: cross-replica prefix relation (C01), markProposed.",
  "contract-based deductive verification: WP over go/ssa + SMT (govc), ghost traces", "DESIGN.md 7.2 C06")

CLAIMED["C11"] = ("Unbounded proof, for every cache content, capacity and operation history of one Cache, of the soundness direction for Verify and Sign: the key the code builds is exactly sha256(message) . count-and-ids of the claimed signers . signature bytes (shape proved over an abstract byte-string model of strings.Builder / sha256.Sum256), insert is called only with a key whose (signature, message) the wrapped implementation has just accepted (or just produced), check reports a hit only for a key that is present, eviction only removes, so the object invariant 'every cached key was verified' holds after every operation and Verify returns nil only if the wrapped implementation accepts the same signature for the same message and claimed signers; a census shows insert is reached only from Sign/Verify/BatchVerify and the entry map is written nowhere else. Two genuine defects found while building this are fixed in /repo (batch digest discarded: a signature verified for one batch was accepted for any batch; signer labels missing from the key).",
  "Trusted / assumed: key injectivity up to the verdict (axioms key_complete/key_sound: SHA-256 collision resistance, the fixed framing, and a verdict that depends only on claimed signers, signature bytes and message), writeSigners (closure through IDSet.ForEach) and evict (container/list) are trusted contracts, Base.Sign's own-signature-verifies, mutex atomicity. Not decided: BatchVerify's key (hash.Hash streaming digest and sorted map iteration are not modelled), completeness direction (an error is returned only if the wrapped implementation returned one), eviction never making a later verification fail, BLS.",
  "contract-based deductive verification: WP over go/ssa + SMT (govc), abstract byte-string model", "DESIGN.md 7.2 C11")

CLAIMED["C12"] = ("Unbounded proof, for every protocol object (any number of signers, any views/ids, every optional part present or absent, ECDSA and EdDSA multi-signatures), that conversion to the wire form and back preserves it: each *ToProto function is proved to put exactly the object's fields into the message (signers and signature bytes in the signature's own order, hashes as their 32 bytes, views, proposer, batch, the timestamp's seconds and nanoseconds, presence of each optional part), each *FromProto function is proved to read exactly those fields back, and for signature, partial certificate, quorum certificate, timeout certificate, block, aggregate QC, sync info, timeout message and proposal the composition decode(encode(x)) is proved (as a contract over the two contracts, on harness functions compiled only under the verif tag) to yield the same scheme, the same signers in the same order, the same signature bytes (hence the same Participants() and ToBytes()), the same hashes, views, proposer, batch and timestamp instant, with every optional part present exactly when it was.",
  "Trusted / assumed: hashes and bytes-to-sign are functions of these fields (Block.ToBytes, QuorumCert.ToBytes etc. are trusted contracts, not proved from their code), timestamppb.New/AsTime carry exactly (seconds, nanoseconds), protobuf marshal/unmarshal itself (library), byte strings are compared through an uninterpreted content function, BLS: only presence and the participants bitfield path (the G2 point encoding is the kilic library's). Not decided: that no entry of an aggregate QC's per-replica QC map is lost (map iteration is modelled without a visited set; every entry that is decoded is faithful), the hash check on fetched blocks (RequestBlockQF), clientpb batch marshalling, verification verdict after the round trip (follows from same signers/bytes/content given C02's contracts, not stated separately).",
  "contract-based deductive verification: WP over go/ssa + SMT (govc); round-trip compositions as contracts over contracts", "DESIGN.md 7.2 C12")

NA = {
 "C01": "cross-replica agreement over all schedules and Byzantine behaviours is a protocol-level inductive invariant over a distributed history; no contract on a function or object of one process can state it (DESIGN.md 3 C01)",
 "C05": "liveness / bounded progress under eventual synchrony is a property of whole executions of all replicas; partial-correctness contracts cannot state it (DESIGN.md 3 C05)",
}
PENDING = "contracts for this property are not yet discharged by govc in this revision; not claimed until they are (see DESIGN.md section 3 for the plan)"

props = [json.loads(l) for l in open('/verif/properties.jsonl')]
checks, na = [], []
for p in props:
    pid = p['id']
    if pid in CLAIMED:
        text, note, tech, ref = CLAIMED[pid]
        checks.append({
            "property_id": pid,
            "quick_cmd": f"bin/check {pid} quick",
            "thorough_cmd": f"bin/check {pid} thorough",
            "evidence_file": f"/verif/evidence/{pid}.json",
            "replay_cmd_template": "bin/check --replay {path}",
            "engine": "govc",
            "level_claimed": {"category": "proof", "text": text, "design_ref": ref},
            "level_note": note,
            "technique": tech,
        })
    else:
        na.append({"property_id": pid, "reason": NA.get(pid, PENDING)})

m = {
 "version": 1,
 "setup_cmd": "cd /verif/govc && GOFLAGS=-mod=mod GOPROXY=off GOTOOLCHAIN=local go1.26.8 build -o /verif/bin/govc . && cd /repo && GOFLAGS=-mod=mod GOPROXY=off go build ./...",
 "hooks": {
  "guard": "verif",
  "enable": "go build -tags verif (the guard only adds comment-only contract files contracts_verif.go; govc loads /repo with -tags=verif)",
  "baseline_off_cmd": "cd /repo && GOFLAGS=-mod=mod GOPROXY=off go test -json -vet=off -count=1 -timeout 25m ./...",
  "source_commits": [],
  "add_only": True,
 },
 "engines": [{"name": "govc", "path": "/verif/govc", "serves_properties": sorted(CLAIMED), "kind_free_text": "contract verifier for Go written for this task: contracts as //@ comments in verif-tagged files inside /repo, verification conditions generated from go/ssa (x/tools v0.50.0) by symbolic execution with loop cutting at invariants, discharged by z3 5.1.0 / cvc5 1.0 / z3 4.8.12; counterexamples replayed on the real code with go test -overlay"}],
 "checks": checks,
 "not_applicable": na,
 "notes": "See DESIGN.md. Evidence files are rewritten by every run of bin/check. known-findings.txt lists genuine defects recorded rather than repaired.",
}
import subprocess
try:
    commits = subprocess.check_output(['git','-C','/repo','log','--format=%H %s','df6eed6..HEAD'], text=True).strip().splitlines()
    m['hooks']['source_commits'] = [c.split()[0] for c in commits if 'verif:' in c or 'hook' in c.lower()]
except Exception:
    pass
json.dump(m, open('/verif/MANIFEST.json','w'), indent=1)
print('wrote MANIFEST.json:', len(checks), 'checks')
