package main

// Burstall–Bornat heap: one SMT array per (root type, leaf path). See DESIGN.md 2.3.

import (
	"fmt"
	"go/types"
	"sort"
	"strings"
)

// State is the symbolic machine state at a program point.
type State struct {
	pc   string            // path condition
	heap map[string]string // heap array name -> current term
	next string            // allocation counter
	base string            // version suffix of the initial heap arrays ("" = "0")
}

func (s *State) clone() *State {
	h := make(map[string]string, len(s.heap))
	for k, v := range s.heap {
		h[k] = v
	}
	return &State{pc: s.pc, heap: h, next: s.next, base: s.base}
}

func q(sym string) string { return "|" + sym + "|" }

// heapSort returns the SMT sort of a heap array.
func heapSort(kind, leafSort, keySort string) string {
	switch kind {
	case "F":
		return "(Array Int " + leafSort + ")"
	case "E":
		return "(Array Int (Array Int " + leafSort + "))"
	case "M":
		return "(Array Int (Array " + keySort + " " + leafSort + "))"
	}
	panic("heapSort")
}

// heapGet returns the current term for a heap array, declaring its initial version on
// first use.
func (e *Env) heapGet(st *State, name, sort string) string {
	if st.next == "next!sym" && len(e.symHeaps) > 0 {
		rd := e.symHeaps[len(e.symHeaps)-1].rd
		if _, ok := rd.heapSort[name]; !ok {
			rd.heapSort[name] = sort
			rd.heapNames = append(rd.heapNames, name)
		}
		e.heapSorts[name] = sort
		return q("h$" + name)
	}
	if t, ok := st.heap[name]; ok {
		return t
	}
	base := st.base
	if base == "" || strings.HasPrefix(name, "T!") || e.cellArray[name] {
		// ghost traces and cells of locals/package variables are never changed implicitly
		// (by calls into unknown code): their initial version is the entry version
		base = "0"
	}
	init := q(name + "@" + base)
	if !e.declared[name+"@"+base] {
		e.declared[name+"@"+base] = true
		e.declared[name] = true
		e.heapSorts[name] = sort
		e.sess.Cmd("(declare-const " + init + " " + sort + ")")
	}
	// all states derive from the entry state, where every array has its @0 version
	return init
}

func (e *Env) heapSet(st *State, name, sort, term string) {
	e.heapGet(st, name, sort) // ensure declared
	st.heap[name] = term
}

// noteWrite records which reference of a heap array was written (used by loop cutting to
// keep objects allocated before the loop intact when only fresh objects are written).
func (e *Env) noteWrite(name, ref string) {
	if e.writeLog != nil {
		e.writeLog[name] = append(e.writeLog[name], ref)
	}
	// writes inside a loop body whose heap array was havocked only partially must hit one
	// of the references the havoc covered (otherwise: obligation auto-writes)
	for _, ph := range e.partials {
		refs, ok := ph.refs[name]
		if !ok || ph.fr.curBlock == nil || !ph.li.body[ph.fr.curBlock] {
			continue
		}
		hit := false
		var alts []string
		for _, r := range refs {
			if r == ref {
				hit = true
			}
			alts = append(alts, mkEq(ref, r))
		}
		if !hit {
			ph.viol = append(ph.viol, mkOr(alts...))
		}
	}
}

func fieldPathString(root types.Type, path []int) string {
	var sb strings.Builder
	t := root
	for _, i := range path {
		st := t.Underlying().(*types.Struct)
		sb.WriteString("." + st.Field(i).Name())
		t = st.Field(i).Type()
	}
	return sb.String()
}

func typeAtPath(root types.Type, path []int) types.Type {
	t := root
	for _, i := range path {
		t = t.Underlying().(*types.Struct).Field(i).Type()
	}
	return t
}

func (p *Ptr) pointee() types.Type { return typeAtPath(p.Root, p.Path) }

// packed returns the SMT datatype used for slice elements of a multi-leaf type: the
// elements of such slices live in ONE heap array of tuples (constructor mk, one selector
// per leaf) instead of one array per leaf, so copying facts are stated once.
func (e *Env) packed(et types.Type) (sort, ctor string, sels []string, ok bool) {
	ls := e.leavesOf(et)
	if len(ls) < 2 {
		return "", "", nil, false
	}
	key := typeKey(et)
	sort = q("S!" + key)
	ctor = q("mk!" + key)
	var fields []string
	for i, l := range ls {
		sel := q(fmt.Sprintf("sel!%s!%d", key, i))
		sels = append(sels, sel)
		fields = append(fields, "("+sel+" "+l.Sort+")")
	}
	if !e.declared["dt:"+key] {
		e.declared["dt:"+key] = true
		e.sess.Cmd("(declare-datatypes ((" + sort + " 0)) (((" + ctor + " " + strings.Join(fields, " ") + "))))")
	}
	return sort, ctor, sels, true
}

// leafOffset returns the index of the first leaf of the location at path inside root.
func (e *Env) leafOffset(root types.Type, path []int) int {
	off := 0
	t := root
	for _, i := range path {
		st := t.Underlying().(*types.Struct)
		for k := 0; k < i; k++ {
			off += len(e.leavesOf(st.Field(k).Type()))
		}
		t = st.Field(i).Type()
	}
	return off
}

// locName returns heap array name and sort for leaf l of the location p points to.
func (e *Env) locName(p *Ptr, l Leaf) (string, string) {
	prefix := fieldPathString(p.Root, p.Path)
	if p.Kind == "elem" {
		if srt, _, _, ok := e.packed(p.Root); ok {
			return "E!" + typeKey(p.Root) + "!", heapSort("E", srt, "")
		}
	}
	switch p.Kind {
	case "obj":
		n := "F!" + typeKey(p.Root) + "!" + prefix + l.Path
		e.leafTypes[n] = l.Typ
		if _, isStruct := p.Root.Underlying().(*types.Struct); !isStruct {
			e.cellArray[n] = true
		}
		return n, heapSort("F", l.Sort, "")
	case "elem":
		n := "E!" + typeKey(p.Root) + "!" + prefix + l.Path
		e.leafTypes[n] = l.Typ
		return n, heapSort("E", l.Sort, "")
	}
	unsupp("locName kind %s", p.Kind)
	return "", ""
}

func isIfaceType(t types.Type) bool {
	_, ok := t.Underlying().(*types.Interface)
	return ok
}

// entryClosed states, once per heap array, that the heap at function entry only contains
// references to objects that existed at entry (and interface values that existed at entry).
func (e *Env) entryClosed(name, srt string, l Leaf) {
	if e.next0 == "" || e.declared["closed:"+name] {
		return
	}
	isRef := isRefType(l.Typ) || strings.HasSuffix(l.Path, "#arr")
	isIf := isIfaceType(l.Typ)
	if !isRef && !isIf {
		return
	}
	e.declared["closed:"+name] = true
	arr := q(name + "@0")
	if !e.declared[name+"@0"] {
		return
	}
	var sel, decl string
	if strings.HasPrefix(name, "F!") {
		sel, decl = "(select "+arr+" |$r|)", "((|$r| Int))"
	} else if strings.HasPrefix(name, "E!") {
		sel, decl = "(select (select "+arr+" |$r|) |$j|)", "((|$r| Int) (|$j| Int))"
	} else {
		return
	}
	// only for objects / backing arrays that existed at entry: locations of objects allocated
	// later (by callees with `alloc` in their frame) are read from the same array version
	var fact string
	if isRef {
		fact = "(and (<= 0 " + sel + ") (=> (< |$r| " + e.next0 + ") (< " + sel + " " + e.next0 + ")))"
	} else {
		e.declAtEntry()
		fact = "(=> (< |$r| " + e.next0 + ") (atentry " + sel + "))"
	}
	e.sess.Cmd("(assert (forall " + decl + " (! " + fact + " :pattern (" + sel + "))))")
}

// entryRange states, once per entry-heap array of an integer-typed location, that every
// location holds a value of its type. Loads at top level assume the range of the loaded term;
// loads under a quantifier cannot (the term mentions bound variables), so a quantified fact
// about `c.f[x.g]` would otherwise lose the range of x.g.
func (e *Env) entryRange(name string, l Leaf) {
	if l.Sort != sInt || isRefType(l.Typ) || strings.HasSuffix(l.Path, "#arr") || e.declared["range:"+name] || !e.declared[name+"@0"] {
		return
	}
	arr := q(name + "@0")
	var sel, decl string
	if strings.HasPrefix(name, "F!") {
		sel, decl = "(select "+arr+" |$r|)", "((|$r| Int))"
	} else if strings.HasPrefix(name, "E!") {
		sel, decl = "(select (select "+arr+" |$r|) |$j|)", "((|$r| Int) (|$j| Int))"
	} else {
		return
	}
	r := e.typeRange(sel, l.Typ)
	if r == tTrue {
		return
	}
	e.declared["range:"+name] = true
	e.sess.Cmd("(assert (forall " + decl + " (! " + r + " :pattern (" + sel + "))))")
}

func (e *Env) declAtEntry() {
	if !e.declared["atentry"] {
		e.declared["atentry"] = true
		e.sess.Cmd("(declare-fun atentry (Int) Bool)")
		e.sess.Cmd("(assert (atentry 0))")
	}
}

func isRefType(t types.Type) bool {
	switch t.Underlying().(type) {
	case *types.Pointer, *types.Map:
		return true
	}
	return false
}

func (e *Env) load(st *State, p *Ptr) Value {
	if p.Kind == "arr" {
		unsupp("load of whole array object %v", p.Root)
	}
	pt := p.pointee()
	ls := e.leavesOf(pt)
	ts := make([]string, len(ls))
	var packedElem string
	var psels []string
	poff := 0
	if p.Kind == "elem" {
		if psort, _, sels, ok := e.packed(p.Root); ok {
			name, srt := e.locName(p, Leaf{})
			arr := e.heapGet(st, name, srt)
			packedElem = e.maybeName(mkSelect(e.selRow(arr, p.Ref), p.Idx), psort)
			psels = sels
			poff = e.leafOffset(p.Root, p.Path)
			if e.quantDepth == 0 {
				e.entryClosedPacked(name, p.Root)
			}
		}
	}
	for i, l := range ls {
		if packedElem != "" {
			ts[i] = sx(psels[poff+i], packedElem)
		} else {
			name, srt := e.locName(p, l)
			arr := e.heapGet(st, name, srt)
			if p.Kind == "obj" {
				ts[i] = mkSelect(arr, p.Ref)
			} else {
				ts[i] = mkSelect(e.selRow(arr, p.Ref), p.Idx)
			}
			if e.quantDepth == 0 {
				e.entryClosed(name, srt, l)
			} else {
				e.entryRange(name, l)
			}
		}
		if l.Sort == sInt {
			if isRefType(l.Typ) || l.Path == "#arr" || strings.HasSuffix(l.Path, "#arr") {
				ts[i] = e.maybeName(ts[i], sInt)
				e.assume(mkImp(st.pc, mkAnd(sx("<=", "0", ts[i]), sx("<", ts[i], st.next))))
			} else if r := e.typeRange(ts[i], l.Typ); r != tTrue {
				e.assume(r)
			}
		}
	}
	v := e.fromLeaves(pt, ts)
	e.assumeShapeUnder(st.pc, v)
	return v
}

func (e *Env) assumeShapeUnder(pc string, v Value) {
	switch x := v.(type) {
	case *Struct:
		for _, f := range x.F {
			e.assumeShapeUnder(pc, f)
		}
	case *Slice:
		e.assume(e.sliceWF(x))
	}
}

func (e *Env) store(st *State, p *Ptr, v Value) {
	if p.Kind == "arr" {
		unsupp("store of whole array object %v", p.Root)
	}
	pt := p.pointee()
	ls := e.leavesOf(pt)
	ts := e.flatten(v)
	if len(ts) != len(ls) {
		unsupp("store shape mismatch %v: %d vs %d", pt, len(ts), len(ls))
	}
	if p.Kind == "elem" {
		if _, ctor, sels, ok := e.packed(p.Root); ok {
			name, srt := e.locName(p, Leaf{})
			arr := e.heapGet(st, name, srt)
			off := e.leafOffset(p.Root, p.Path)
			all := make([]string, len(sels))
			if len(ts) == len(sels) {
				copy(all, ts)
			} else {
				cur := mkSelect(mkSelect(arr, p.Ref), p.Idx)
				for k := range sels {
					all[k] = sx(sels[k], cur)
				}
				copy(all[off:], ts)
			}
			na := mkStore(arr, p.Ref, mkStore(mkSelect(arr, p.Ref), p.Idx, sx(ctor, all...)))
			e.heapSet(st, name, srt, e.maybeName(na, srt))
			e.noteWrite(name, p.Ref)
			return
		}
	}
	for i, l := range ls {
		name, srt := e.locName(p, l)
		arr := e.heapGet(st, name, srt)
		var na string
		if p.Kind == "obj" {
			na = mkStore(arr, p.Ref, ts[i])
		} else {
			na = mkStore(arr, p.Ref, mkStore(mkSelect(arr, p.Ref), p.Idx, ts[i]))
		}
		e.heapSet(st, name, srt, e.maybeName(na, srt))
		e.noteWrite(name, p.Ref)
	}
}

// alloc returns a fresh object reference.
func (e *Env) alloc(st *State) string {
	r := e.maybeNameForce(st.next, sInt, "ref")
	st.next = sx("+", r, "1")
	if e.allocLog != nil {
		e.allocLog[r] = true
	}
	return r
}

// allocObj allocates an object of type t initialised to v (or zero).
func (e *Env) allocObj(st *State, t types.Type, init Value) *Ptr {
	r := e.alloc(st)
	ptrT := types.NewPointer(t)
	if at, ok := t.Underlying().(*types.Array); ok && !isByte(at.Elem()) {
		p := &Ptr{Kind: "arr", Ref: r, Root: t, Typ: ptrT}
		// zero-initialised backing array
		e.initBacking(st, r, at.Elem())
		return p
	}
	p := &Ptr{Kind: "obj", Ref: r, Root: t, Typ: ptrT}
	if init == nil {
		init = e.zeroValue(t)
	}
	e.store(st, p, init)
	return p
}

func constArray(sort, val string) string {
	return "((as const " + sort + ") " + val + ")"
}

// initBacking sets all elements of backing array r (element type et) to zero.
func (e *Env) initBacking(st *State, r string, et types.Type) {
	names, sorts, leaves := e.elemArrays(et)
	for i, name := range names {
		arr := e.heapGet(st, name, sorts[i])
		e.heapSet(st, name, sorts[i], e.maybeName(mkStore(arr, r, constArray("(Array Int "+leaves[i].Sort+")", e.zeroLeaf(leaves[i]))), sorts[i]))
		e.noteWrite(name, r)
	}
}

// entryClosedPacked: closure of the entry heap for packed element arrays.
func (e *Env) entryClosedPacked(name string, et types.Type) {
	if e.next0 == "" || e.declared["closed:"+name] || !e.declared[name+"@0"] {
		return
	}
	e.declared["closed:"+name] = true
	_, _, sels, _ := e.packed(et)
	arr := q(name + "@0")
	elem := "(select (select " + arr + " |$r|) |$j|)"
	for i, l := range e.leavesOf(et) {
		if l.Sort != sInt {
			continue
		}
		term := sx(sels[i], elem)
		var fact string
		if isRefType(l.Typ) || strings.HasSuffix(l.Path, "#arr") {
			fact = "(and (<= 0 " + term + ") (=> (< |$r| " + e.next0 + ") (< " + term + " " + e.next0 + ")))"
		} else if isIfaceType(l.Typ) {
			e.declAtEntry()
			fact = "(=> (< |$r| " + e.next0 + ") (atentry " + term + "))"
		} else {
			continue
		}
		e.sess.Cmd("(assert (forall ((|$r| Int) (|$j| Int)) (! " + fact + " :pattern (" + term + "))))")
	}
}

// ---------------------------------------------------------------------------
// maps

func (e *Env) mapNames(mt *types.Map) (dom, size string, keySort string) {
	kl := e.leavesOf(mt.Key())
	k := "M!" + typeKey(mt) + "!"
	if len(kl) != 1 {
		// a struct of fixed-width integers is packed injectively into one Int
		for _, l := range kl {
			if b := basicOf(l.Typ); b == nil || b.Info()&types.IsInteger == 0 || l.Sort != sInt {
				unsupp("map with composite key %v", mt.Key())
			}
		}
		return k + "dom", k + "size", sInt
	}
	return k + "dom", k + "size", kl[0].Sort
}

// mapKeyTerm is the index term of a key: its single leaf, or for a struct of fixed-width
// integers the injective packing  (...(l0 * 2^w1 + u(l1)) * 2^w2 + u(l2) ...), u = offset to
// non-negative.
func (e *Env) mapKeyTerm(mt *types.Map, key Value) string {
	fl := e.flatten(key)
	kl := e.leavesOf(mt.Key())
	if len(kl) == 1 {
		return fl[0]
	}
	acc := ""
	for i, l := range kl {
		w := bitWidth(l.Typ)
		t := fl[i]
		if basicOf(l.Typ).Info()&types.IsUnsigned == 0 {
			t = sx("+", t, pow2str(w-1))
		}
		if i == 0 {
			acc = t
		} else {
			acc = sx("+", sx("*", acc, pow2str(w)), t)
		}
	}
	return acc
}

func (e *Env) mapLookup(st *State, m *MapV, key Value) (val Value, ok string) {
	mt := m.Typ.Underlying().(*types.Map)
	dn, _, ks := e.mapNames(mt)
	k := e.mapKeyTerm(mt, key)
	dom := e.heapGet(st, dn, heapSort("M", sBool, ks))
	in := mkAnd(mkNot(mkEq(m.Ref, "0")), mkSelect(mkSelect(dom, m.Ref), k))
	in = e.maybeName(in, sBool)
	ls := e.leavesOf(mt.Elem())
	ts := make([]string, len(ls))
	for i, l := range ls {
		name := "M!" + typeKey(mt) + "!val" + l.Path
		srt := heapSort("M", l.Sort, ks)
		arr := e.heapGet(st, name, srt)
		raw := e.maybeName(mkSelect(mkSelect(arr, m.Ref), k), l.Sort)
		if l.Sort == sInt {
			if isRefType(l.Typ) || strings.HasSuffix(l.Path, "#arr") {
				e.assume(mkImp(st.pc, mkAnd(sx("<=", "0", raw), sx("<", raw, st.next))))
			} else if r := e.typeRange(raw, l.Typ); r != tTrue {
				e.assume(r)
			}
		}
		ts[i] = mkIte(in, raw, e.zeroLeaf(l))
	}
	v := e.fromLeaves(mt.Elem(), ts)
	e.assumeShapeUnder(st.pc, v)
	return v, in
}

func (e *Env) mapLen(st *State, m *MapV) string {
	mt := m.Typ.Underlying().(*types.Map)
	_, sn, _ := e.mapNames(mt)
	sz := e.heapGet(st, sn, heapSort("F", sInt, ""))
	t := e.maybeName(mkIte(mkEq(m.Ref, "0"), "0", mkSelect(sz, m.Ref)), sInt)
	e.assume(sx("<=", "0", t))
	// a map cannot hold more entries than its key type has values
	if kb := basicOf(mt.Key()); kb != nil && kb.Info()&types.IsInteger != 0 && bitWidth(mt.Key()) <= 32 {
		e.assume(sx("<=", t, pow2str(bitWidth(mt.Key()))))
	}
	return t
}

func (e *Env) mapUpdate(st *State, m *MapV, key, val Value) {
	mt := m.Typ.Underlying().(*types.Map)
	dn, sn, ks := e.mapNames(mt)
	k := e.mapKeyTerm(mt, key)
	ds := heapSort("M", sBool, ks)
	dom := e.heapGet(st, dn, ds)
	was := e.maybeName(mkSelect(mkSelect(dom, m.Ref), k), sBool)
	e.heapSet(st, dn, ds, e.maybeName(mkStore(dom, m.Ref, mkStore(mkSelect(dom, m.Ref), k, tTrue)), ds))
	e.noteWrite(dn, m.Ref)
	e.noteWrite(sn, m.Ref)
	ss := heapSort("F", sInt, "")
	sz := e.heapGet(st, sn, ss)
	e.assume(sx("<=", "0", mkSelect(sz, m.Ref)))
	e.heapSet(st, sn, ss, e.maybeName(mkStore(sz, m.Ref, mkIte(was, mkSelect(sz, m.Ref), sx("+", mkSelect(sz, m.Ref), "1"))), ss))
	ls := e.leavesOf(mt.Elem())
	ts := e.flatten(val)
	for i, l := range ls {
		name := "M!" + typeKey(mt) + "!val" + l.Path
		srt := heapSort("M", l.Sort, ks)
		arr := e.heapGet(st, name, srt)
		e.heapSet(st, name, srt, e.maybeName(mkStore(arr, m.Ref, mkStore(mkSelect(arr, m.Ref), k, ts[i])), srt))
		e.noteWrite(name, m.Ref)
	}
}

func (e *Env) mapDelete(st *State, m *MapV, key Value) {
	mt := m.Typ.Underlying().(*types.Map)
	dn, sn, ks := e.mapNames(mt)
	k := e.mapKeyTerm(mt, key)
	ds := heapSort("M", sBool, ks)
	dom := e.heapGet(st, dn, ds)
	was := e.maybeName(mkAnd(mkNot(mkEq(m.Ref, "0")), mkSelect(mkSelect(dom, m.Ref), k)), sBool)
	// delete on a nil map is a no-op; ref 0 is never a real map so updating it is harmless
	e.heapSet(st, dn, ds, e.maybeName(mkStore(dom, m.Ref, mkStore(mkSelect(dom, m.Ref), k, tFalse)), ds))
	e.noteWrite(dn, m.Ref)
	e.noteWrite(sn, m.Ref)
	ss := heapSort("F", sInt, "")
	sz := e.heapGet(st, sn, ss)
	e.heapSet(st, sn, ss, e.maybeName(mkStore(sz, m.Ref, mkIte(was, sx("-", mkSelect(sz, m.Ref), "1"), mkSelect(sz, m.Ref))), ss))
}

func (e *Env) makeMap(st *State, t types.Type) *MapV {
	mt := t.Underlying().(*types.Map)
	r := e.alloc(st)
	dn, sn, ks := e.mapNames(mt)
	ds := heapSort("M", sBool, ks)
	dom := e.heapGet(st, dn, ds)
	e.heapSet(st, dn, ds, e.maybeName(mkStore(dom, r, constArray("(Array "+ks+" Bool)", tFalse)), ds))
	e.noteWrite(dn, r)
	e.noteWrite(sn, r)
	ss := heapSort("F", sInt, "")
	sz := e.heapGet(st, sn, ss)
	e.heapSet(st, sn, ss, e.maybeName(mkStore(sz, r, "0"), ss))
	return &MapV{Ref: r, Typ: t}
}

// ---------------------------------------------------------------------------
// state merging

// mergeStates merges states reached along mutually exclusive edges.
func (e *Env) mergeStates(sts []*State) *State {
	if len(sts) == 1 {
		return sts[0].clone()
	}
	var pcs []string
	for _, s := range sts {
		pcs = append(pcs, s.pc)
	}
	out := &State{pc: e.maybeName(mkOr(pcs...), sBool), heap: map[string]string{}, base: sts[0].base}
	names := map[string]bool{}
	for _, s := range sts {
		for n := range s.heap {
			names[n] = true
		}
	}
	// states from different havoc epochs: materialise every known array and continue in a
	// fresh epoch (arrays first used later are unconstrained)
	diffBase := false
	for _, s := range sts {
		if s.base != sts[0].base {
			diffBase = true
		}
	}
	if diffBase {
		for n := range e.heapSorts {
			names[n] = true
		}
		e.epoch++
		out.base = fmt.Sprintf("e%d", e.epoch)
	}
	sorted := make([]string, 0, len(names))
	for n := range names {
		sorted = append(sorted, n)
	}
	sort.Strings(sorted)
	for _, n := range sorted {
		srt := e.heapSorts[n]
		t := e.heapGet(sts[len(sts)-1], n, srt)
		for i := len(sts) - 2; i >= 0; i-- {
			t = mkIte(sts[i].pc, e.heapGet(sts[i], n, srt), t)
		}
		out.heap[n] = e.maybeName(t, srt)
	}
	nx := sts[len(sts)-1].next
	for i := len(sts) - 2; i >= 0; i-- {
		nx = mkIte(sts[i].pc, sts[i].next, nx)
	}
	out.next = e.maybeName(nx, sInt)
	return out
}

func (e *Env) mergeValues(pcs []string, vs []Value) Value {
	v := vs[len(vs)-1]
	for i := len(vs) - 2; i >= 0; i-- {
		v = e.merge(pcs[i], vs[i], v)
	}
	return v
}

var _ = fmt.Sprintf

// ---------------------------------------------------------------------------
// ghost traces: per channel a length and one array per record component

func (e *Env) traceLenTerm(st *State, ch string) string {
	arr := e.heapGet(st, "T!"+ch+"!len", "(Array Int Int)")
	if e.quantDepth == 0 && !e.declared["tlen0:"+ch] {
		e.declared["tlen0:"+ch] = true
		e.sess.Cmd("(assert (<= 0 (select " + q("T!"+ch+"!len@0") + " 0)))")
	}
	t := mkSelect(arr, "0")
	// a run emits fewer than 2^62 records: positions fit the Go int range spec quantifiers use
	if e.asserted == nil {
		e.asserted = map[string]bool{}
	}
	if !strings.Contains(t, "$") && !e.asserted["tlenbound:"+t] {
		e.asserted["tlenbound:"+t] = true
		e.sess.Cmd("(assert (and (<= 0 " + t + ") (< " + t + " 4611686018427387904)))")
		e.trust("ghost traces hold fewer than 2^62 records")
	}
	return t
}

func (e *Env) traceAt(st *State, ch string, k int, pos string) string {
	arr := e.heapGet(st, fmt.Sprintf("T!%s!%d", ch, k), "(Array Int Int)")
	return mkSelect(arr, pos)
}

// emit appends a record to a trace channel.
func (e *Env) emit(st *State, ch string, comps []string) {
	n := e.traceLenTerm(st, ch)
	n = e.maybeNameForce(n, sInt, "tlen")
	for k, c := range comps {
		name := fmt.Sprintf("T!%s!%d", ch, k)
		arr := e.heapGet(st, name, "(Array Int Int)")
		e.heapSet(st, name, "(Array Int Int)", e.maybeName(mkStore(arr, n, c), "(Array Int Int)"))
		e.noteWrite(name, n)
	}
	ln := "T!" + ch + "!len"
	arr := e.heapGet(st, ln, "(Array Int Int)")
	e.heapSet(st, ln, "(Array Int Int)", e.maybeName(mkStore(arr, "0", sx("+", n, "1")), "(Array Int Int)"))
	e.noteWrite(ln, "0")
}

// emitFor evaluates and appends the records of an item's emits clauses.
func (e *Env) emitFor(it *Item, ctx *SpecCtx, st *State) {
	for _, em := range it.Emits {
		var comps []string
		for _, a := range em.Args {
			v := ctx.eval(a)
			for i, t := range e.flatten(v) {
				l := e.leavesOf(v.vtype())
				if i < len(l) && l[i].Sort == sBool {
					t = mkIte(t, "1", "0")
				}
				comps = append(comps, t)
			}
		}
		e.emit(st, em.Ch, comps)
	}
}

// havocAllBut models a call into unknown code: every heap array becomes arbitrary, except
// the fields of the struct types listed as preserved (and ghost traces).
func (e *Env) havocAllBut(st *State, preserved []types.Type) {
	keep := map[string]string{}
	for _, t := range preserved {
		p := &Ptr{Kind: "obj", Root: t}
		for _, l := range e.leavesOf(t) {
			n, srt := e.locName(p, l)
			keep[n] = e.heapGet(st, n, srt)
		}
		// values of a preserved struct type stored in slices are preserved as well
		if _, isStruct := t.Underlying().(*types.Struct); isStruct {
			names, sorts, _ := e.elemArrays(t)
			for i, n := range names {
				keep[n] = e.heapGet(st, n, sorts[i])
			}
		}
	}
	for n := range e.heapSorts {
		if strings.HasPrefix(n, "V!") {
			keep[n] = e.heapGet(st, n, e.heapSorts[n])
		}
		// ghost traces, and cells of non-struct type (local variables whose address is taken,
		// package-level variables): unknown code cannot reach the former and is assumed not to
		// reassign the latter
		if strings.HasPrefix(n, "T!") || (strings.HasPrefix(n, "F!") && e.cellArray[n]) {
			keep[n] = e.heapGet(st, n, e.heapSorts[n])
		}
	}
	e.epoch++
	st.base = fmt.Sprintf("e%d", e.epoch)
	st.heap = keep
	nx := e.fresh("next", sInt)
	e.assume(sx("<=", st.next, nx))
	st.next = nx
	if e.writeLog != nil {
		e.writeLog["*callee-modifies*"] = append(e.writeLog["*callee-modifies*"], "unknown code")
	}
}

// selRow reads row `ref` of a two-level element array. When the array is syntactically
// store(a, ref, row) the row itself is returned, so that facts (and quantifier patterns) about
// the row apply to the reads directly; the unsimplified term is kept alive by a (tautological)
// equation, because other patterns match on it.
func (e *Env) selRow(arr, ref string) string {
	if strings.HasPrefix(arr, "(store ") && e.quantDepth == 0 {
		if a := topArgs(arr); len(a) == 4 && a[2] == ref {
			key := "selrow:" + arr
			if !e.asserted[key] {
				if e.asserted == nil {
					e.asserted = map[string]bool{}
				}
				e.asserted[key] = true
				e.sess.Cmd("(assert (= " + sx("select", arr, ref) + " " + a[3] + "))")
			}
			return a[3]
		}
	}
	return mkSelect(arr, ref)
}
