package eventloop

import "testing"

// Witness for the defect fixed by "fix: eventloop queue reports the entry it actually drops":
// on overflow of a queue with capacity >= 2, push reported the second-oldest entry as dropped
// while silently overwriting the oldest one (obligation core/eventloop.(*queue).push:post:drop).
func TestGovcFindingQueuePushDropped(t *testing.T) {
	q := newQueue(3)
	q.push("a")
	q.push("b")
	q.push("c")
	d := q.push("d")
	if d != "a" {
		t.Fatalf("push on a full queue reported %v as dropped, want a (the oldest entry)", d)
	}
	var got []any
	for {
		e, ok := q.pop()
		if !ok {
			break
		}
		got = append(got, e)
	}
	if len(got) != 3 || got[0] != "b" || got[1] != "c" || got[2] != "d" {
		t.Fatalf("queue content %v, want [b c d]", got)
	}
}
