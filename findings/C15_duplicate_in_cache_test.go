package clientpb

import (
	"context"
	"testing"
)

// Witness for the known finding "property=C15 obligation=...Add:post:unique@ret1": the same
// (client, sequence number) added twice before it is marked proposed is stored twice and
// handed out twice in one batch.
func TestGovcFindingDuplicateInCache(t *testing.T) {
	c := NewCommandCache(2)
	c.Add(&Command{ClientID: 1, SequenceNumber: 1})
	c.Add(&Command{ClientID: 1, SequenceNumber: 1})
	b, err := c.Get(context.Background())
	if err != nil {
		t.Fatal(err)
	}
	if len(b.Commands) == 2 && b.Commands[0].ClientID == b.Commands[1].ClientID && b.Commands[0].SequenceNumber == b.Commands[1].SequenceNumber {
		t.Fatalf("command (client 1, seq 1) handed out twice in one batch")
	}
}
