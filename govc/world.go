package main

import (
	"encoding/json"
	"fmt"
	"go/types"
	"os"
	"path/filepath"
	"sort"
	"strings"

	"golang.org/x/tools/go/packages"
	"golang.org/x/tools/go/ssa"
	"golang.org/x/tools/go/ssa/ssautil"
)

const modPath = "github.com/relab/hotstuff"

// World is everything loaded from /repo: typed packages, SSA, contracts.
type World struct {
	repo         string
	pkgs         []*packages.Package
	prog         *ssa.Program
	spkgs        map[string]*ssa.Package
	allTypesPkgs []*types.Package
	items        []*Item
	funcItems    map[string]*Item // "pkgpath::key" -> contract
	ifaceItems   map[string]*Item // "pkgpath::Iface.Method"
	pures        map[string]*Item // "pkgpath::name"
	lemmas       map[string]*Item
	axioms       []*Item
	recursive    map[*Item]bool
	funcsByKey   map[string]*ssa.Function
	allFuncs     map[*ssa.Function]bool
	loadErrors   []string
	preserveSets map[string]*Item
	knownObligations map[string]bool
	recordedParams   map[string]map[string][]string // contract-params.json: names the contracts were written against
}

func loadWorld(repo string, patterns []string) (*World, error) {
	w := &World{repo: repo, spkgs: map[string]*ssa.Package{}, funcItems: map[string]*Item{}, ifaceItems: map[string]*Item{},
		pures: map[string]*Item{}, lemmas: map[string]*Item{}, recursive: map[*Item]bool{}, funcsByKey: map[string]*ssa.Function{}}
	cfg := &packages.Config{Mode: packages.LoadSyntax | packages.NeedModule, Dir: repo, BuildFlags: []string{"-tags=verif"},
		Env: append(os.Environ(), "GOFLAGS=-mod=mod", "GOPROXY=off")}
	pkgs, err := packages.Load(cfg, patterns...)
	if err != nil {
		return nil, err
	}
	for _, p := range pkgs {
		for _, e := range p.Errors {
			w.loadErrors = append(w.loadErrors, e.Error())
		}
	}
	if len(w.loadErrors) > 0 {
		return nil, fmt.Errorf("load errors: %s", strings.Join(w.loadErrors, "; "))
	}
	w.pkgs = pkgs
	prog, spkgs := ssautil.Packages(pkgs, ssa.InstantiateGenerics|ssa.GlobalDebug)
	prog.Build()
	w.prog = prog
	for i, sp := range spkgs {
		if sp != nil {
			w.spkgs[pkgs[i].PkgPath] = sp
			w.allTypesPkgs = append(w.allTypesPkgs, pkgs[i].Types)
		}
	}
	// also make imported (non-root) packages findable by name for spec types
	seen := map[*types.Package]bool{}
	for _, p := range w.allTypesPkgs {
		seen[p] = true
	}
	for _, p := range pkgs {
		for _, imp := range p.Types.Imports() {
			if !seen[imp] {
				seen[imp] = true
				w.allTypesPkgs = append(w.allTypesPkgs, imp)
			}
		}
	}
	w.allFuncs = ssautil.AllFunctions(prog)
	for fn := range w.allFuncs {
		if fn.Pkg == nil {
			// instantiations of generic functions/methods: keyed in the origin's package
			if o := fn.Origin(); o != nil && o.Pkg != nil && len(fn.Blocks) > 0 {
				w.funcsByKey[o.Pkg.Pkg.Path()+"::"+fn.RelString(o.Pkg.Pkg)] = fn
			}
			continue
		}
		w.funcsByKey[fn.Pkg.Pkg.Path()+"::"+fn.RelString(fn.Pkg.Pkg)] = fn
	}
	// contracts
	for _, p := range pkgs {
		if len(p.GoFiles) == 0 {
			continue
		}
		dir := filepath.Dir(p.GoFiles[0])
		matches, _ := filepath.Glob(filepath.Join(dir, "contracts*_verif.go"))
		sort.Strings(matches)
		for _, f := range matches {
			items, err := parseContractFile(f, p.PkgPath)
			if err != nil {
				return nil, err
			}
			for _, it := range items {
				w.items = append(w.items, it)
				k := p.PkgPath + "::" + it.Name
				switch it.Kind {
				case "func":
					if w.funcItems[k] != nil {
						return nil, fmt.Errorf("%s:%d: duplicate contract for %s", it.File, it.Line, it.Name)
					}
					w.funcItems[k] = it
				case "interface":
					w.ifaceItems[k] = it
				case "pure":
					w.pures[k] = it
				case "lemma":
					w.lemmas[k] = it
				case "axiom":
					w.axioms = append(w.axioms, it)
				case "preserveset":
					if w.preserveSets == nil {
						w.preserveSets = map[string]*Item{}
					}
					w.preserveSets[it.Name] = it
				}
			}
		}
	}
	pf := os.Getenv("GOVC_PARAMS")
	if pf == "" {
		pf = "/verif/contract-params.json"
	}
	if b, err := os.ReadFile(pf); err == nil {
		_ = json.Unmarshal(b, &w.recordedParams)
	}
	for _, it := range w.pures {
		if it.Body != nil && mentionsCall(it.Body, it.Name) {
			w.recursive[it] = true
		}
	}
	return w, nil
}

func mentionsCall(x *SExpr, name string) bool {
	if x == nil {
		return false
	}
	if x.Op == "call" && x.Name == name {
		return true
	}
	for _, a := range x.Args {
		if mentionsCall(a, name) {
			return true
		}
	}
	return false
}

func (w *World) isRecursive(it *Item) bool { return w.recursive[it] }

func (w *World) typesPkg(path string) *types.Package {
	for _, p := range w.allTypesPkgs {
		if p.Path() == path {
			return p
		}
	}
	return nil
}

func (w *World) pureFunc(pkg *types.Package, name string) *Item {
	return w.pures[pkg.Path()+"::"+name]
}

func (w *World) lemma(pkg *types.Package, name string) *Item {
	if it := w.lemmas[pkg.Path()+"::"+name]; it != nil {
		return it
	}
	// qualified lemma names pkg.name are resolved by the caller
	return nil
}

func (w *World) findFunc(pkgPath, key string) *ssa.Function {
	return w.funcsByKey[pkgPath+"::"+key]
}

// contractFor returns the contract item of an SSA function, if any.
func (w *World) contractFor(fn *ssa.Function) *Item {
	if fn == nil {
		return nil
	}
	f := fn
	if o := fn.Origin(); o != nil {
		if o.Pkg != nil {
			if it := w.funcItems[o.Pkg.Pkg.Path()+"::"+fn.RelString(o.Pkg.Pkg)]; it != nil {
				return it
			}
		}
		f = o
	}
	if f.Pkg == nil {
		return nil
	}
	return w.funcItems[f.Pkg.Pkg.Path()+"::"+f.RelString(f.Pkg.Pkg)]
}

// findMethod finds the SSA function implementing method name for a receiver of type t.
func (w *World) findMethod(t types.Type, name string) *ssa.Function {
	if t == nil {
		return nil
	}
	if _, isIface := t.Underlying().(*types.Interface); isIface {
		return nil
	}
	try := func(t types.Type) *ssa.Function {
		ms := w.prog.MethodSets.MethodSet(t)
		for i := 0; i < ms.Len(); i++ {
			if ms.At(i).Obj().Name() == name {
				return w.prog.MethodValue(ms.At(i))
			}
		}
		return nil
	}
	if f := try(t); f != nil {
		return f
	}
	if _, ok := t.Underlying().(*types.Pointer); !ok {
		return try(types.NewPointer(t))
	}
	return nil
}

// globals: package-level variables are modelled as heap cells
func (w *World) globalFor(v *types.Var) *ssa.Global {
	if v.Pkg() == nil {
		return nil
	}
	sp := w.prog.Package(v.Pkg())
	if sp == nil {
		return nil
	}
	if g, ok := sp.Members[v.Name()].(*ssa.Global); ok {
		return g
	}
	return nil
}

func inRepo(fn *ssa.Function) bool {
	f := fn
	if o := fn.Origin(); o != nil {
		f = o
	}
	for f.Parent() != nil {
		f = f.Parent()
	}
	return f.Pkg != nil && strings.HasPrefix(f.Pkg.Pkg.Path(), modPath)
}

func funcQName(fn *ssa.Function) string {
	f := fn
	if f.Pkg == nil {
		if o := fn.Origin(); o != nil && o.Pkg != nil {
			return strings.TrimPrefix(o.Pkg.Pkg.Path(), modPath+"/") + "." + fn.RelString(o.Pkg.Pkg)
		}
		return fn.String()
	}
	p := f.Pkg.Pkg.Path()
	if p == modPath {
		p = "hotstuff"
	} else {
		p = strings.TrimPrefix(p, modPath+"/")
	}
	return p + "." + fn.RelString(f.Pkg.Pkg)
}

// preservedTypes expands a preserves clause (type names, or @name for a declared set).
func (w *World) preservedTypes(it *Item) []types.Type {
	pv, ok := it.Opts["preserves"]
	if !ok {
		return nil
	}
	var out []types.Type
	var expand func(pkgPath, list string)
	expand = func(pkgPath, list string) {
		pkg := w.typesPkg(pkgPath)
		for _, n := range splitTop(list, ',') {
			n = strings.TrimSpace(n)
			if n == "" || n == "nothing" {
				continue
			}
			if strings.HasPrefix(n, "@") {
				ps := w.preserveSets[n[1:]]
				if ps == nil {
					specFail("unknown preserve set %s", n)
				}
				expand(ps.Pkg, ps.Opts["list"])
				continue
			}
			out = append(out, w.resolveType(pkg, n))
		}
	}
	expand(it.Pkg, pv)
	return out
}
