#!/usr/bin/env python3
# validates MANIFEST.json and evidence files against the schemas in /root/.vp
import json, sys, glob
try:
    import jsonschema
except ImportError:
    sys.path.insert(0, '/opt/veriftools/pyvenv/lib/python3.11/site-packages')
    import jsonschema
ok = True
m = json.load(open('/verif/MANIFEST.json'))
try:
    jsonschema.validate(m, json.load(open('/root/.vp/MANIFEST.schema.json')))
    print('MANIFEST ok:', len(m['checks']), 'checks,', len(m.get('not_applicable', [])), 'n/a')
except Exception as e:
    ok = False; print('MANIFEST INVALID', e)
es = json.load(open('/root/.vp/EVIDENCE.schema.json'))
for f in sorted(glob.glob('/verif/evidence/*.json')):
    try:
        ev = json.load(open(f))
        jsonschema.validate(ev, es)
        if ev.get('level') == 'proof' and ev['coverage'].get('discharged') != ev['coverage'].get('obligations'):
            raise Exception('proof level: discharged %s != obligations %s' % (ev['coverage'].get('discharged'), ev['coverage'].get('obligations')))
        print('ok', f)
    except Exception as e:
        ok = False; print('INVALID', f, str(e)[:300])
sys.exit(0 if ok else 1)
