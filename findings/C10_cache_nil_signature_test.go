package cert_test

import (
	"testing"

	"github.com/relab/hotstuff/core"
	"github.com/relab/hotstuff/internal/testutil"
	"github.com/relab/hotstuff/security/crypto"
)

// Witness (C10: "decoding, certificate verification and the protocol handlers never panic";
// C11: "the cache never changes a verification verdict"). A timeout message (or a Kauri
// contribution) whose signature is absent on the wire decodes to a nil signature and reaches
// Authority.Verify. The uncached schemes answer with an error ("incompatible type <nil>"); the
// cached authority built the cache key first and called Participants() on the nil interface:
// a nil-pointer panic, i.e. one malformed message crashes every replica that runs with the
// signature cache (the deployment default).
func TestGovcFindingCachedVerifyNilSignature(t *testing.T) {
	for _, cacheSize := range []uint{0, 10} {
		var opts []core.RuntimeOption
		if cacheSize > 0 {
			opts = append(opts, core.WithCache(cacheSize))
		}
		set := testutil.NewEssentialsSet(t, 4, crypto.NameECDSA, opts...)
		func() {
			defer func() {
				if r := recover(); r != nil {
					t.Errorf("cache=%d: Verify(nil signature) panicked: %v", cacheSize, r)
				}
			}()
			if err := set.Signers()[0].Verify(nil, []byte("view bytes")); err == nil {
				t.Errorf("cache=%d: a nil signature verified", cacheSize)
			}
		}()
	}
}
