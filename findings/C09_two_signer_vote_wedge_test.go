package votingmachine_test

// dest: protocol/votingmachine/zz_govc_c09_wedge_test.go
//
// Witness for the finding on VotingMachine.verifyCert (C09, "invalid, duplicate ... votes never
// count, and at the all-to-one collector they cannot prevent the certificate from forming once a
// quorum of honest votes is present"): n = 7, f = 2, quorum 5. The two faulty replicas 6 and 7
// send a vote whose signature combines their two partial signatures, and replica 7 also sends
// its ordinary vote. The duplicate check only looks at a vote's first signer, so both are
// stored. When the five honest votes have arrived, combining the stored votes fails on the
// overlapping signer 7, the stored votes are kept, every later attempt fails the same way, and
// no certificate is ever produced for the block although a quorum of honest votes arrived.

import (
	"context"
	"testing"
	"time"

	"github.com/relab/hotstuff"
	"github.com/relab/hotstuff/core/eventloop"
	"github.com/relab/hotstuff/internal/testutil"
	"github.com/relab/hotstuff/protocol"
	"github.com/relab/hotstuff/protocol/votingmachine"
	"github.com/relab/hotstuff/security/crypto"
)

func TestGovcFindingTwoSignerVoteWedgesCollector(t *testing.T) {
	signers := testutil.NewEssentialsSet(t, 7, crypto.NameECDSA)
	leader := signers[0]
	viewStates, err := protocol.NewViewStates(leader.Blockchain(), leader.Authority())
	if err != nil {
		t.Fatal(err)
	}
	vm := votingmachine.New(leader.Logger(), leader.EventLoop(), leader.RuntimeCfg(), leader.Blockchain(), leader.Authority(), viewStates)
	newViewTriggered := false
	eventloop.Register(leader.EventLoop(), func(_ hotstuff.NewViewMsg) { newViewTriggered = true })

	block := testutil.CreateBlock(t, leader.Authority())
	leader.Blockchain().Store(block)

	pcs := make([]hotstuff.PartialCert, 7)
	for i, s := range signers {
		pcs[i] = testutil.CreatePC(t, block, s.Authority())
	}
	// the faulty replicas 6 and 7: one vote signed by both, then replica 7's ordinary vote
	both, err := signers[5].Authority().Combine(pcs[5].Signature(), pcs[6].Signature())
	if err != nil {
		t.Fatal(err)
	}
	vm.CollectVote(hotstuff.VoteMsg{ID: 6, PartialCert: hotstuff.NewPartialCert(both, block.Hash())})
	vm.CollectVote(hotstuff.VoteMsg{ID: 7, PartialCert: pcs[6]})
	// now the five honest votes (a quorum) arrive
	for i := 0; i < 5; i++ {
		vm.CollectVote(hotstuff.VoteMsg{ID: hotstuff.ID(i + 1), PartialCert: pcs[i]})
	}
	ctx, cancel := context.WithTimeout(context.Background(), 100*time.Millisecond)
	defer cancel()
	leader.EventLoop().Run(ctx)
	if !newViewTriggered {
		t.Fatal("five honest votes (a quorum) arrived, but the two faulty replicas' votes kept the collector from ever forming the certificate")
	}
}
